"""C19 — the sentence-level message type equals the payload's 6-bit type.

The provenance of AisSentence.message_type on every accepting path, as a function of the first
payload byte b, is compared over all b in 0..255 with the armoring value of b (48..87 -> b-48,
96..119 -> b-56), i.e. with the first six bits of the *unarmored* payload.
"""
from __future__ import annotations
from ..domains import IntSet, Lin
from ..values import VInt
from ..interp import lin_of, VApp
from .fsm import get_fsm


def armor_value(b):
    if 48 <= b <= 87:
        return b - 48
    if 96 <= b <= 119:
        return b - 56
    return None


def run(ctx, chk):
    cfgs = ctx.configs()
    ctx.prefetch(cfgs)
    for cfg in cfgs:
        fsm = get_fsm(ctx, cfg)
        terms = {}
        for c in fsm.cells:
            if c.sentence is None:
                continue
            mt = c.sfields["message_type"]
            pstart = c.roles["payload"].start
            # the byte the type is taken from must exist: an accepted sentence has a payload of at
            # least one character (otherwise the 'first payload character' is the next delimiter)
            pe = c.roles["payload"]
            chk.ob(pe.lo is not None and pe.lo >= 1, "C19/empty-payload/%s" % (pe.lo,),
                   "a sentence with an empty payload field is accepted [%s] and reports a message type although it has no first payload character" % cfg)
            desc = None
            if isinstance(mt, VInt):
                l = lin_of(c.path.st, mt)
                sa = l.single_atom()
                if sa and sa[1] == 1 and sa[2] == 0 and sa[0][0] == "bits" and sa[0][1] == "L":
                    pos, w = sa[0][2], sa[0][3]
                    if pos == pstart.scale(8).key():
                        desc = ("first_payload_byte_bits", 0, w)
                    else:
                        desc = ("bits_at", repr(pos), w)
            if desc is None:
                desc = ("other", repr(mt)[:80])
            terms.setdefault(desc, 0)
            terms[desc] += 1
        chk.ob(len(terms) == 1, "C19/terms/%r" % (sorted(terms),), "sentence.message_type has %d different provenances [%s]: %r" % (len(terms), cfg, sorted(terms)))
        for desc in terms:
            if desc[0] == "first_payload_byte_bits":
                w = desc[2]
                wrong = [b for b in range(256) if armor_value(b) is not None and (b >> (8 - w)) != armor_value(b)]
                ex = [(chr(b), b >> (8 - w), armor_value(b)) for b in wrong[:3]]
                chk.ob(not wrong, "C19/message_type/got=top%dbits_of_first_armored_byte/wrong_for=%d_of_64" % (w, len(wrong)),
                       "sentence.message_type [%s] is the top %d bits of the first *armored* payload byte, which differs from the message type for %d of the 64 armoring characters (e.g. %r -> %d, type is %d)" % (
                           cfg, w, len(wrong), ex[0][0] if ex else "", ex[0][1] if ex else 0, ex[0][2] if ex else 0),
                       {"examples": ex})
            else:
                chk.ob(False, "C19/message_type/%r" % (desc,), "sentence.message_type [%s] is not derived from the first payload character: %r" % (cfg, desc))
    chk.cov["configs"] = cfgs
    chk.cov["exhaustive"] = True
    chk.cov["trusted_base"] = ["rustc MIR", "nom bits::take contract", "armoring alphabet (C03)"]
