"""C11 — 'not available' codes, and only those, decode to an absent value (see rules/c10.py for
the shared machinery).  The table of each decoder is taken at the call site's value range, so a
sentinel written at the wrong resolution shows up as an empty None class."""
from __future__ import annotations
from ..domains import IntSet
from .c10 import numeric_fields, field_table, collect_inline, SENT
from .common import flatten, unwrap_message, leaf_table
from ..extract import Canon
from .c04 import infer_shape
from ..spec import itu


def sentinel_of(kind):
    parts = kind.split(":")
    if parts[0] in SENT:
        return SENT[parts[0]]
    if len(parts) > 1:
        return int(parts[1])
    return None


def run(ctx, chk):
    cfgs = ctx.configs()
    ctx.prefetch(cfgs)
    cache = {"inline": collect_inline(ctx, cfgs)}
    done = set()
    helpers = set()
    n = 0
    cover = {}
    for (cfg, I, C, struct, p, kind, offw, term, o) in numeric_fields(ctx, cfgs):
        sent = sentinel_of(kind)
        if sent is None:
            continue
        # "never turned into absent or into an error": over the outcomes that decode the message,
        # the field's raw values must not be restricted (a `verify` that refuses month 13..15
        # leaves no Ok outcome for those values)
        full_u = IntSet.range(0, (1 << offw[1]) - 1)
        g = o.guard.get(("bits", offw[0], offw[1]))
        gs = o.guard.get(("sext", offw[0], offw[1]))
        if gs is not None and g is None:
            neg = gs.intersect(IntSet.range(-(1 << (offw[1] - 1)), -1))
            g = gs.intersect(IntSet.range(0, (1 << (offw[1] - 1)) - 1))
            for lo, hi in neg.iv:
                g = g.union(IntSet.range(int(lo) + (1 << offw[1]), int(hi) + (1 << offw[1])))
        needle = "('bits', 'P', %d, %d)" % (offw[0], offw[1])
        cond = [k for k, v in (o.opq or {}).items() if needle in repr(k)]
        chk.ob(not cond, "C11/values-conditioned/%s/%s" % (struct, p),
               "%s.%s [%s]: whether the message decodes depends on a predicate of this field's raw value that the analysis cannot evaluate (%s): some raw values may be turned into an error" % (struct, p, cfg, repr(cond[:1])[:160]))
        ck = (cfg, struct, p, offw)
        cover[ck] = cover.get(ck, IntSet.empty()).union(full_u if g is None else g.intersect(full_u))
        r = field_table(chk, "C11", I, C, cfg, struct, p, kind, offw, term, o, cache)
        if r is None:
            continue
        rows, rng, leaf = r
        dk = (cfg, struct, p, leaf, rng.iv, tuple(sorted(o.tset().values())))
        if dk in done:
            continue
        done.add(dk)
        n += 1
        if sent < 0:
            sent_raw = sent + (1 << offw[1])      # sentinel given on the signed reading of an unsigned field
        else:
            sent_raw = sent
        if not leaf.startswith("inline:") and "{closure" not in leaf:
            helpers.add((cfg, leaf, sent_raw, offw[1]))
        none_set = IntSet.empty()
        some_set = IntSet.empty()
        for (sets, res, s2, rv) in rows:
            if res == ("none",):
                none_set = none_set.union(sets[0])
            elif res[0] == "some":
                some_set = some_set.union(sets[0])
        want = IntSet.of(sent_raw).intersect(rng)
        chk.ob(not want.is_empty(), "C11/spec/%s/%s" % (struct, p), "specification sentinel %d does not fit the field %s.%s" % (sent, struct, p))
        chk.ob(none_set == want, "C11/%s/%s/none=%s/want=%s" % (struct, p, none_set, want),
               "%s.%s [%s, decoder %s]: absent for raw %r, the 'not available' code of this %d-bit field is %d" % (struct, p, cfg, leaf, none_set, offw[1], sent),
               sample={"field": struct + "." + p, "absent_for": repr(none_set), "sentinel": sent})
        chk.ob(some_set == rng.minus(want), "C11/%s/%s/some=%s" % (struct, p, some_set.iv[:3]),
               "%s.%s [%s]: present for %r, expected every value except the sentinel (a value panics or is dropped)" % (struct, p, cfg, some_set))
    for (cfg, struct, p, offw), cv in sorted(cover.items(), key=repr):
        full_u = IntSet.range(0, (1 << offw[1]) - 1)
        chk.ob(cv == full_u, "C11/values-rejected/%s/%s/%s" % (struct, p, full_u.minus(cv)),
               "%s.%s [%s]: no decoded outcome exists for raw values %r of this %d-bit field (the message is rejected or the value lost)" % (struct, p, cfg, full_u.minus(cv), offw[1]))
    # the decoders are public functions of their own: over the whole argument type (not only the
    # field's range) the absent set must still be the sentinel alone - "out-of-range raw values
    # that are not the sentinel are passed through, never turned into absent"
    nfull = 0
    for (cfg, leaf, sent_raw, w) in sorted(helpers):
        I = ctx.layouts(cfg)[0]
        C = Canon(I.f)
        b = I.f.bodies.get(leaf)
        if b is None or b["arg_count"] != 1:
            continue
        t = I.f.types[b["locals"][1]]
        if t["k"] != "int":
            continue
        full = IntSet.range(-(1 << (t["w"] - 1)), (1 << (t["w"] - 1)) - 1) if t["s"] else IntSet.range(0, (1 << t["w"]) - 1)
        try:
            rows = leaf_table(I, C, leaf, [full])
        except Exception as e:
            chk.ob(False, "C11/helper-domain/unanalysable/%s" % leaf.rsplit("::", 1)[-1], "reason=unanalysable: %s over its whole argument type [%s]: %r" % (leaf, cfg, e))
            continue
        none_full = IntSet.empty()
        for (sets, res, s2, rv) in rows:
            if res == ("none",):
                none_full = none_full.union(sets[0])
        nfull += 1
        sr = sent_raw if not (t["s"] and sent_raw >= (1 << (w - 1)) and w < t["w"]) else sent_raw
        chk.ob(none_full.minus(IntSet.of(sr)).minus(IntSet.of(sr - (1 << w))).is_empty(), "C11/helper-domain/%s/none=%s" % (leaf.rsplit("::", 1)[-1], none_full.iv[:3]),
               "%s [%s] reports 'absent' for raw values %r; only the not-available code %d may be absent, also outside the %d-bit field" % (leaf, cfg, none_full, sent_raw, w),
               sample={"decoder": leaf, "absent_over_whole_type": repr(none_full)})
    chk.ob(nfull >= 5, "C11/helper-domain/floor/%d" % nfull, "only %d decoder functions evaluated over their whole argument type" % nfull)
    # the rate of turn is exposed only through its accessors: over every value `RateOfTurn::parse`
    # can produce (-127..127; -128 is the not-available code and gives no value at all) `rate()` is
    # absent exactly for +/-127 ("no turn indicator") and `direction()` exactly for 0 ("not turning")
    from ..interp import Interp, St, OPTION
    from ..values import VAdt, VInt
    from ..domains import Lin
    from .. import xform
    for cfg in cfgs:
        f = ctx.facts(cfg)
        nacc = 0
        for meth, want in (("rate", IntSet.of(-127).union(IntSet.of(127))), ("direction", IntSet.of(0))):
            bs = [b for b in f.bodies.values() if b["def"].endswith("::" + meth) and (b.get("impl_self") or "").endswith("RateOfTurn") and not b.get("impl_trait")]
            chk.ob(len(bs) == 1, "C11/rot/%s/missing" % meth, "RateOfTurn::%s not found [%s]" % (meth, cfg))
            if len(bs) != 1:
                continue
            b = bs[0]
            I2 = Interp(f, xform.EXT)
            st0 = St()
            atom = ("sym", "self.raw", -127, 127)
            selft = f.types[b["locals"][1]]
            adt = selft["def"] if selft["k"] == "adt" else f.types[selft["ty"]]["def"]
            selfv = VAdt(adt, 0, (VInt(8, True, lin=Lin.atom(atom)),))
            if selft["k"] == "ref":
                from ..values import VRef
                selfv = VRef(I2.new_cell(st0, selfv), ())
            try:
                outs = I2.exec_fn(st0, b, [selfv])
            except Exception as e:
                chk.ob(False, "C11/rot/%s/unanalysable" % meth, "reason=unanalysable: RateOfTurn::%s [%s]: %r" % (meth, cfg, e))
                continue
            none_set, some_set = IntSet.empty(), IntSet.empty()
            for st, rv in outs:
                vals = st.aset(atom)
                if isinstance(rv, VAdt) and rv.adt == OPTION and rv.variant == 0:
                    none_set = none_set.union(vals)
                else:
                    some_set = some_set.union(vals)
            nacc += 1
            chk.ob(none_set == want and some_set == IntSet.range(-127, 127).minus(want), "C11/rot/%s/none=%s" % (meth, none_set),
                   "RateOfTurn::%s [%s] is absent for raw %r and present for %r; expected absent exactly for %r" % (meth, cfg, none_set, some_set, want),
                   sample={"accessor": "RateOfTurn::" + meth, "absent_for": repr(none_set)})
        chk.ob(nacc == 2, "C11/rot/floor/%d" % nacc, "rate-of-turn accessors evaluated: %d [%s]" % (nacc, cfg))
    # inline sentinels (interrogation slot offset 0) are partitions of messages::parse itself
    for cfg in cfgs:
        I, outs = ctx.layouts(cfg)
        seen = 0
        for o in outs:
            if not o.ok:
                continue
            variant, struct, sterm = unwrap_message(o.term)
            if struct != "Interrogation":
                continue
            flat = flatten(sterm)
            for p, t in flat.items():
                if not p.endswith(".slot_offset"):
                    continue
                if t == ("none",):
                    # absent only when the offset is transmitted as 0 or is not in the payload at all
                    shape = infer_shape(struct, flat, o)
                    exp = itu.expected_fields(struct, shape) or {}
                    if p in exp:
                        off, w, _ = exp[p]
                        g = o.guard.get(("bits", off, w))
                        okk = (g is not None and g == IntSet.of(0)) or o.nset().max() * 8 < off + w
                        chk.ob(okk, "C11/Interrogation/absent/%s/%s/%s" % (p.split(".")[-2][:12], g, o.nset()),
                               "Interrogation.%s [%s]: absent at %r bytes although the 12 offset bits are present and not known to be 0 (guard %r)" % (p, cfg, o.nset(), g))
                    continue
                if t[0] == "some" and t[1][0] == "bits":
                    g = o.guard.get(t[1])
                    seen += 1
                    chk.ob(g is not None and not g.contains(0) and g == IntSet.range(1, 4095), "C11/Interrogation/%s/%s" % (p.split(".")[-2][:8], g),
                           "Interrogation.%s [%s]: reported for raw values %r, expected every value except 0" % (p, cfg, g),
                           sample={"field": "Interrogation." + p, "present_for": repr(g)})
        chk.ob(seen >= 3, "C11/Interrogation/floor/%d" % seen, "interrogation slot offsets reached only %d times [%s]" % (seen, cfg))
    chk.cov["configs"] = cfgs
    chk.cov["programs"] = len(cfgs)
    chk.cov["fields"] = n
    chk.cov["trusted_base"] = ["rustc MIR", "sentinel table in spec/itu.py (ITU-R M.1371-5)"]
    chk.ob(n >= 50, "C11/floor/%d" % n, "only %d optional numeric fields reached" % n)
