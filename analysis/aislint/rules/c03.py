"""C03 — unarmoring is the exact 6-bit unpacking with fill bits cleared.

ArmorModel extracted from the MIR of messages::unarmor with a symbolic buffer of length n and fill
in 0..5, the loop summarised by the counted-slice rule and n, k split by residue mod 4:
 (a) alphabet: the loop body continues exactly for bytes 48..87 (value b-48) and 96..119 (b-56) and
     returns Err for every other byte;
 (b) length: the zero-initialised output has ceil(6n/8) bytes (compared per residue class, both
     sides linear inside a class);
 (c) placement: in iteration k = 4j+r the only writes OR bit t (MSB first) of the 6-bit value into
     stream bit 6k+t, i.e. byte 3j+(6r+t)//8, bit 7-(6r+t)%8, and touch nothing else;
 (d) masking: for each (n mod 4, fill) the final AND-masks clear every stream bit in [6n-fill, 6n)
     and no stream bit below 6n-fill.
Composition (stated, not derived): a zero buffer OR-written once per k with pairwise disjoint
supports holds the concatenation; (c) gives the premises for every k, (b) the size, (d) the tail.
"""
from __future__ import annotations
from ..domains import IntSet, Lin, INF
from ..values import VAdt, VSeq
from ..interp import RESULT, Unanalysable
from .. import armor

ALPHABET = IntSet([(48, 87), (96, 119)])


def residue_of(st, atom):
    """(modulus, residue, quotient atom) of a congruence-split atom, or None"""
    sub = st.pc.subst.get(atom)
    if sub is None:
        return None
    sub = st.norm(sub)
    sa = sub.single_atom()
    if not sa:
        if sub.is_const():
            return ("const", sub.c, None)
        return None
    return (sa[1], sa[2], sa[0])


def lin_parts(lk, qatom):
    """key ('lin', terms, c) -> (coefficient of qatom, c) or None if other atoms occur"""
    coef = 0
    for a, k in lk[1]:
        if a == qatom:
            coef = k
        else:
            return None
    return coef, lk[2]


def run(ctx, chk):
    cfgs = ctx.configs()
    ctx.prefetch(cfgs)
    for cfg in cfgs:
        I, outs = armor.run_unarmor(ctx.facts(cfg))
        natom = ("len", armor.ABUF)
        # ------------------------------------------------ (0) "yields exactly ceil(6n/8) bytes" for *every*
        # alphabet string and fill 0..5: no panic site inside the function may be reachable (an
        # overflowing offset, an index out of range) - the same obligations C01 discharges for this root
        npanic = 0
        for site, ob in sorted(I.obl.items(), key=lambda kv: repr(kv[0])):
            npanic += 1
            chk.ob(not ob.failures, "C03/no-value/%s/%s" % (ob.kind, site[0].rsplit("::", 1)[-1]),
                   "unarmor [%s]: %s at %s may fail (%s): for such an input no bytes are produced" % (cfg, ob.kind, ob.loc, (ob.failures[0][1] if ob.failures else "")),
                   sample={"panic_site": ob.kind, "loc": ob.loc, "status": "unreachable"})
        for k_, v_ in sorted(I.unknown_ext.items()):
            chk.ob(False, "C03/no-value/unknown-external/%s" % k_, "unarmor [%s]: call to %s has no contract" % (cfg, k_))
        chk.ob(npanic >= 15, "C03/no-value/floor/%s/%d" % (cfg, npanic), "only %d panic sites examined inside unarmor [%s]" % (npanic, cfg))
        # ---------------------------------------------------------------- (a) + (c): the loop
        n_back = 0
        res_seen = set()
        for lid, L in sorted(I.loops.items()):
            kk = L["kk"]
            ok_bytes = IntSet.empty()
            for (b, writes) in L["backs"]:
                n_back += 1
                elem = ("byte", armor.ABUF, Lin.atom(kk).key())
                bs = b.pc.sets.get(elem, IntSet.range(0, 255))
                ok_bytes = ok_bytes.union(bs)
                rk = residue_of(b, kk)
                if rk is None or rk[0] != 4:
                    chk.ob(False, "C03/loop/residue/%r" % (rk,), "unarmor loop [%s]: iteration counter not split mod 4: %r" % (cfg, rk))
                    continue
                _, r, jatom = rk
                res_seen.add(r)
                # which value is ORed in: v = byte - base
                base = 48 if bs.subset_of(IntSet.range(48, 87)) else (56 if bs.subset_of(IntSet.range(96, 119)) else None)
                chk.ob(base is not None, "C03/alphabet/mixed/%r" % (bs,), "unarmor loop [%s]: one body path handles bytes %r" % (cfg, bs))
                want_val = (Lin.atom(elem) - (base or 0)).key()
                exp = {}
                for t in range(6):
                    p = 6 * r + t
                    exp[(p // 8, 7 - p % 8)] = 5 - t          # (byte offset from 3j, bit) -> bit of v
                got = {}
                okw = True
                for c, ws in writes.items():
                    for w in ws:
                        if w[0] != "w":
                            okw = False
                            continue
                        lp = lin_parts(w[1], jatom)
                        if lp is None or lp[0] != 3:
                            chk.ob(False, "C03/place/index/%r" % (w[1],), "unarmor loop [%s], k = 4j+%d: write index %r is not 3j + const" % (cfg, r, w[1]))
                            okw = False
                            continue
                        off = lp[1]
                        for i, eff in enumerate(w[2]):
                            bit = 7 - i
                            if eff == "keep":
                                continue
                            if isinstance(eff, tuple) and eff[0] == "or":
                                cell = eff[1]
                                vb = None
                                if isinstance(cell, tuple) and len(cell) == 2 and isinstance(cell[0], tuple) and cell[0][0] == "val" and cell[0][1] == want_val:
                                    vb = cell[1]
                                if vb is None:
                                    got[(off, bit)] = ("?", cell)
                                else:
                                    got[(off, bit)] = vb
                            else:
                                got[(off, bit)] = ("non-or", eff)
                chk.ob(okw and got == exp, "C03/place/r%d/base%s/%r" % (r, base, sorted((k, v) for k, v in got.items() if exp.get(k) != v)[:3]),
                       "unarmor loop [%s], character k = 4j+%d (bytes %r): bits placed %r, the 6-bit value must land on stream bits 6k..6k+5: %r" % (cfg, r, bs, sorted(got.items()), sorted(exp.items())),
                       sample={"k_mod_4": r, "bytes": repr(bs), "placement": {"%d.%d" % k: v for k, v in sorted(exp.items())}})
            chk.ob(ok_bytes == ALPHABET, "C03/alphabet/accepts=%r" % (ok_bytes,), "unarmor [%s] continues for bytes %r, the armoring alphabet is %r" % (cfg, ok_bytes, ALPHABET),
                   sample={"alphabet": repr(ok_bytes)})
            bad = IntSet.empty()
            for (s2, rv) in L["rets"]:
                elem = ("byte", armor.ABUF, Lin.atom(kk).key())
                bad = bad.union(s2.pc.sets.get(elem, IntSet.range(0, 255)))
                chk.ob(isinstance(rv, VAdt) and rv.adt == RESULT and rv.variant == 1, "C03/alphabet/nonerr", "unarmor [%s]: a path leaving the loop early does not return Err" % cfg)
            chk.ob(bad == IntSet.range(0, 255).minus(ALPHABET), "C03/alphabet/rejects=%r" % (bad,), "unarmor [%s] returns an error for bytes %r, expected every byte outside the alphabet" % (cfg, bad))
        chk.ob(res_seen == {0, 1, 2, 3} and n_back >= 8, "C03/loop/coverage/%r/%d" % (sorted(res_seen), n_back), "unarmor loop [%s]: residues analysed %r, %d body paths" % (cfg, sorted(res_seen), n_back))
        # ---------------------------------------------------------------- (b) + (d): length, masks
        seen = set()
        seen_small = set()
        for (st, rv) in outs:
            if not (isinstance(rv, VAdt) and rv.adt == RESULT and rv.variant == 0):
                continue
            out = rv.fields[0]
            if not (isinstance(out, VSeq) and out.term[0] == "zeros"):
                chk.ob(False, "C03/output/%r" % (out,), "unarmor [%s] returns %r, not the zero-initialised buffer it filled" % (cfg, out))
                continue
            rn = residue_of(st, natom)
            if rn is None or rn[0] != 4:
                chk.ob(False, "C03/len/residue/%r" % (rn,), "unarmor [%s]: input length not split mod 4" % cfg)
                continue
            _, r, qatom = rn
            fills = st.aset(("sym", "fill", 0, 5))
            qset = st.aset(qatom)
            lp = lin_parts(st.norm(out.term[1]).key(), qatom)
            want_c = -(-6 * r // 8)
            chk.ob(lp == (3, want_c), "C03/length/r%d/%r" % (r, lp), "unarmor [%s], n = 4q+%d: output has %r bytes, expected 3q+%d = ceil(6n/8)" % (cfg, r, lp, want_c),
                   sample={"n_mod_4": r, "bytes": "3q+%d" % want_c})
            ws = [w for w in out.term[2] if w[0] == "w"]
            sums = [w for w in out.term[2] if w[0] == "loopsum"]
            chk.ob(len(sums) == 1 and out.term[2][0][0] == "loopsum", "C03/output/loopsum/%d" % len(sums), "unarmor [%s]: the returned buffer is not the one written by the loop" % cfg)
            cleared = set()
            okm = True
            for w in ws:
                lpw = lin_parts(w[1], qatom)
                if lpw is None or lpw[0] != 3:
                    okm = False
                    continue
                for i, eff in enumerate(w[2]):
                    if eff == "clear":
                        cleared.add(8 * lpw[1] + i)           # stream bit relative to 24q
                    elif eff != "keep":
                        okm = False
            for f in fills.values():
                key = (r, f, qset.min() == 0 and qset.max() == 0)
                seen.add((r, f))
                if qset.min() == 0:
                    seen_small.add((r, f))        # the shortest input of the class (n = r) decodes
                nbits = 6 * r       # relative to 24q
                must = set(range(nbits - f, nbits))
                if r == 0 and f > 0 and qset.max() == 0:
                    # n == 0: there are no bits to clear
                    chk.ob(not ws, "C03/mask/n0/%d" % len(ws), "unarmor [%s]: masks applied to an empty output" % cfg)
                    continue
                if r == 0 and qset.min() == 0 and qset.max() != 0 and f > 0:
                    chk.ob(False, "C03/mask/n0-mixed", "unarmor [%s]: n = 0 and n >= 4 share a masking path" % cfg)
                    continue
                low = set(b for b in cleared if b < nbits - f)
                chk.ob(okm and must <= cleared and not low, "C03/mask/r%d/f%d/missing=%r/extra=%r" % (r, f, sorted(must - cleared), sorted(low)),
                       "unarmor [%s], n = 4q+%d, fill %d: cleared stream bits (relative to 24q) %r; must clear %r and nothing below bit %d" % (cfg, r, f, sorted(cleared), sorted(must), nbits - f),
                       sample={"n_mod_4": r, "fill": f, "cleared": sorted(cleared)})
        chk.ob(seen == {(r, f) for r in range(4) for f in range(6)}, "C03/mask/coverage/%d" % len(seen), "unarmor [%s]: (n mod 4, fill) classes reached: %d of 24" % (cfg, len(seen)))
        miss = sorted({(r, f) for r in range(4) for f in range(6)} - seen_small)
        chk.ob(not miss, "C03/short-inputs/%r" % (miss[:4],), "unarmor [%s] yields no value for the shortest inputs of the classes (n, fill) = %r (n = 0..3): a panic or an error on a string over the alphabet" % (cfg, miss))
        # capacity (no-alloc): the only other Err is the 384-byte buffer
        for (st, rv) in outs:
            if isinstance(rv, VAdt) and rv.adt == RESULT and rv.variant == 1:
                how = [e[0] for e in st.events if e[0] in ("loop_return", "capacity_err")]
                chk.ob(bool(how) and (cfg == "none" or how == ["loop_return"]), "C03/err/%r" % (how,), "unarmor [%s] returns an error that is neither an alphabet error nor (no-alloc) a capacity error: %r" % (cfg, how))
    chk.cov["configs"] = cfgs
    chk.cov["programs"] = len(cfgs)
    chk.cov["exhaustive"] = True
    chk.cov["trusted_base"] = ["rustc MIR", "vec![0; n] / heapless resize give n zero bytes", "slice iteration visits every byte once, in order", "composition lemma (zero buffer + disjoint OR writes)"]
    chk.assumptions += ["payload shorter than 2^28 bytes", "loop induction offset = 6k established by the counted-slice rule"]
