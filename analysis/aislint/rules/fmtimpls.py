"""hand-written Debug / Display impls of the library's types, interpreted on an arbitrary value of
the type (derived impls cannot panic and only pass on the formatter's own errors).

Findings:
  panic  - a panic obligation inside the impl (or what it calls) can fail;
  error  - the impl returns `Err(fmt::Error)` of its own making on some value: `format!`,
           `to_string` and `println!` turn that into a panic ("a formatting trait implementation
           returned an error");
  unanalysable / unknown-external - the body cannot be followed.
"""
from __future__ import annotations
from ..interp import Interp, St, Unanalysable, RESULT
from ..values import VAdt, VOpaque, VRef
from ..symval import sym_of_type
from .. import xform


def analyse_manual_fmt(lf):
    from . import c01
    nfmt = nman = 0
    findings = []
    for b in sorted(lf.bodies.values(), key=lambda b: b["def"]):
        tr = b.get("impl_trait") or ""
        if not (tr.endswith("fmt::Debug") or tr.endswith("fmt::Display")) or not b["def"].endswith("::fmt"):
            continue
        nfmt += 1
        if b.get("derived"):
            continue
        nman += 1
        tyname = (b.get("impl_self") or "?")
        trn = tr.rsplit("::", 1)[-1]
        FI = Interp(lf, xform.EXT)
        st0 = St()
        try:
            selfv = sym_of_type(FI, st0, b["locals"][1], "self")
            fmtv = VRef(FI.new_cell(st0, VOpaque("env:formatter")), (), True)
            outs = FI.exec_fn(st0, b, [selfv, fmtv])
            c01.finish_leaves(FI)
        except Unanalysable as u:
            findings.append(("unanalysable", tyname, trn, "-", "reason=unanalysable: hand-written %s for %s cannot be followed: %s" % (trn, tyname, u.what)))
            continue
        for site, o in sorted(FI.obl.items(), key=lambda x: repr(x[0])):
            if o.failures:
                findings.append(("panic", tyname, trn, o.kind.replace(" ", "_"),
                                 "formatting a value of %s with its hand-written %s impl can panic: %s at %s (%s): %s" % (tyname, trn, o.kind, o.loc, site[0], o.failures[0][0])))
        for (st, rv) in outs:
            if isinstance(rv, VAdt) and rv.adt == RESULT and rv.variant == 1 and not isinstance(rv.fields[0], VOpaque):
                findings.append(("error", tyname, trn, "own-error",
                                 "the hand-written %s impl of %s returns an error of its own making (%s) when %s: format!/to_string/println! panic on it" % (
                                     trn, tyname, b["def"], "; ".join(st.pc.describe()[:4]) or "always")))
                break
        for k2, uses in sorted(FI.unknown_ext.items()):
            okk = k2.startswith("core::fmt") or k2.startswith("core:fmt") or "::fmt::" in k2 or "Formatter" in k2 or "Debug" in k2
            if not okk:
                findings.append(("unknown-external", tyname, trn, k2, "hand-written %s for %s calls %s, which has no contract" % (trn, tyname, k2)))
    return nfmt, nman, findings


def analyse_error_conversions(lf):
    """`From<..> for Error` impls are run by `?` on every rejected line: each is interpreted on an
    arbitrary argument of its source type; every panic is an obligation.  -> (count, findings)"""
    from . import c01
    n = 0
    findings = []
    for b in sorted(lf.bodies.values(), key=lambda b: b["def"]):
        tr = b.get("impl_trait") or ""
        if not (tr.endswith("convert::From") and (b.get("impl_self") or "").endswith("Error") and b["def"].endswith("::from") and b["arg_count"] == 1):
            continue
        n += 1
        src = (b.get("impl_trait_ref") or b["def"])
        FI = Interp(lf, xform.EXT)
        st0 = St()
        try:
            arg = sym_of_type(FI, st0, b["locals"][1], "err")
            FI.exec_fn(st0, b, [arg])
            c01.finish_leaves(FI)
        except Unanalysable as u:
            findings.append(("unanalysable", src, "-", "reason=unanalysable: error conversion %s cannot be followed: %s" % (src, u.what)))
            continue
        for site, o in sorted(FI.obl.items(), key=lambda x: repr(x[0])):
            if o.failures:
                findings.append(("panic", src, o.kind.replace(" ", "_"),
                                 "the error conversion %s, run by `?` on a rejected line, can panic: %s at %s (%s): %s" % (src, o.kind, o.loc, site[0], o.failures[0][0])))
    return n, findings
