"""Fsm model: the transition relation of AisParser::parse extracted as cells
   guard(k, n, s, id relation, decode, opaque outcomes) -> (result, post-state, events)
shared by C02, C05, C06, C07, C17."""
from __future__ import annotations
from ..domains import IntSet, Lin, INF
from ..values import *
from ..interp import VApp, RESULT, OPTION, Unanalysable, lin_of
from .. import grammar
from .sent_common import SentModel

LINE = "L"


def assign_roles(chain):
    """role of each main-chain element, by structure.  -> dict role -> Elem, or raises"""
    roles = {}
    i = 0

    def el(j):
        return chain[j] if j < len(chain) else None

    def expect(j, kind, param=None):
        e = el(j)
        if e is None or e.kind != kind or (param is not None and e.param != param):
            raise Unanalysable("sentence grammar: expected %s%s at element %d, found %r" % (kind, "" if param is None else repr(param), j, e))
        return e
    if el(0) is not None and el(0).kind == "tag" and el(0).param == b"\\":
        expect(1, "take_until", b"\\")
        expect(2, "tag", b"\\")
        roles["tagblock"] = chain[1]
        i = 3
    e = expect(i, "tag")
    roles["start"] = e
    roles["talker"] = expect(i + 1, "take", 2)
    roles["report"] = expect(i + 2, "take", 3)
    expect(i + 3, "tag", b",")
    roles["num_fragments"] = expect(i + 4, "digit1")
    expect(i + 5, "tag", b",")
    roles["fragment_number"] = expect(i + 6, "digit1")
    expect(i + 7, "tag", b",")
    j = i + 8
    if el(j) is not None and el(j).kind == "digit1":
        roles["message_id"] = chain[j]
        j += 1
    expect(j, "tag", b",")
    roles["channel"] = expect(j + 1, "take_until", b",")
    expect(j + 2, "tag", b",")
    roles["payload"] = expect(j + 3, "take_until", b",")
    expect(j + 4, "tag", b",")
    roles["fill"] = expect(j + 5, "digit1")
    jj = j + 6
    while el(jj) is not None and el(jj).kind == "remainder":
        jj += 1          # unparsed rest of a captured slice (C08 decides whether that is acceptable)
    roles["star"] = expect(jj, "tag", b"*")
    roles["checksum"] = expect(jj + 1, "hex_u32")
    if len(chain) != jj + 2:
        raise Unanalysable("sentence grammar: %d trailing elements" % (len(chain) - jj - 2))
    return roles


def parsed_atom(e):
    return ("parsed", ("utf8", ("slice", LINE, e.start.key(), (e.end - e.start).key())), 8, 0, 255)


class Cell:
    pass


class Fsm:
    def __init__(self, m: SentModel):
        self.m = m
        self.cells = []
        self.rejected = []      # err:form / err:checksum paths (frame rule only)
        for p in m.paths:
            c = Cell()
            c.path = p
            c.kind = p.kind
            c.post = p.post
            c.stores = [e for e in p.events if e[0] == "store" and e[1] == m.cell]
            if not p.grammar_ok:
                self.rejected.append(c)
                continue
            chain, side, unresolved = grammar.analyse_path(p.st)
            c.chain = chain
            c.roles = assign_roles(grammar.flatten_chain(chain))
            r = c.roles
            c.atoms = {
                "n": parsed_atom(r["num_fragments"]), "k": parsed_atom(r["fragment_number"]),
                "fill": parsed_atom(r["fill"]),
                "idv": parsed_atom(r["message_id"]) if "message_id" in r else None,
                "s": ("sym", "self.fragment_number", 0, 255), "sp": ("sym", "self.message_id?", 0, 1),
                "sv": ("sym", "self.message_id.val", 0, 255), "decode": ("sym", "decode", 0, 1),
            }
            c.payload = ("slice", LINE, r["payload"].start, r["payload"].end - r["payload"].start)
            if p.kind == "err:checksum":
                self.rejected.append(c)
                continue
            self.cells.append(c)
            self.describe(c)

    # ---- canonical post-state / result vocabulary -------------------------------------------
    def seq_name(self, c, t):
        """'D' | 'P' | 'D+P' | '[]' | other"""
        k = t[0]
        if k == "empty":
            return "[]"
        if k == "sym" and t[1] == "self.data":
            return "D"
        if k == "slice":
            buf, start, ln = t[1], t[2], t[3]
            if buf == LINE and start == c.payload[2] and ln == c.payload[3]:
                return "P"
            if isinstance(buf, tuple) and buf[0] == "seq" and start.is_const() and start.c == 0:
                inner = self.seq_name(c, buf[1])
                # whole-sequence view
                return inner
            return "slice?"
        if k == "concat":
            return self.seq_name(c, t[1]) + "+" + self.seq_name(c, t[2])
        return "?"

    def int_name(self, c, v):
        if not isinstance(v, VInt):
            return "?"
        l = lin_of(c.path.st, v)
        if l.is_const():
            return str(l.c)
        sa = l.single_atom()
        if sa and sa[1] == 1 and sa[2] == 0:
            for nm in ("n", "k", "s", "fill", "idv", "sv"):
                if c.atoms.get(nm) == sa[0]:
                    return nm
        return repr(l)

    def opt_name(self, c, v):
        if isinstance(v, VSymEnum) and v.disc == c.atoms["sp"]:
            return "sid"
        if isinstance(v, VAdt) and v.adt == OPTION:
            if v.variant == 0:
                return "None" if c.atoms["idv"] is not None else "id"      # sentence id absent
            nm = self.int_name(c, v.fields[0])
            return "id" if nm == "idv" else "Some(%s)" % nm
        return "?"

    def describe(self, c):
        post = c.post
        names = [f["name"] for f in self.m.f.adts[post.adt]["variants"][0]["fields"]]
        vals = dict(zip(names, post.fields))
        c.post_sid = self.opt_name(c, vals["message_id"])
        c.post_s = self.int_name(c, vals["fragment_number"])
        c.post_D = self.seq_name(c, vals["data"].term) if isinstance(vals["data"], VSeq) else "?"
        c.sentence = c.path.sentence()
        c.result = c.kind
        c.delivered = None
        c.message = None
        if c.sentence is not None:
            sn = [f["name"] for f in self.m.f.adts[c.sentence.adt]["variants"][0]["fields"]]
            sv = dict(zip(sn, c.sentence.fields))
            c.sfields = sv
            d = sv.get("data")
            c.delivered = self.seq_name(c, d.term) if isinstance(d, VSeq) else "?"
            msg = sv.get("message")
            if isinstance(msg, VAdt) and msg.adt == OPTION:
                c.message = "None" if msg.variant == 0 else repr(msg.fields[0])
        c.calls = [e for e in c.path.events if e[0] == "call"]
        c.capacity = [e for e in c.path.events if e[0] == "capacity_err"]
        # an explicit size limit on the reassembled payload (a comparison of the stored length with a
        # constant that ends in an error) is the same thing as the fixed buffer's capacity error
        c.size_limit = None
        dlen = ("len", ("seq", ("sym", "self.data")))
        plen = c.payload[3]
        for f in c.path.st.pc.facts:
            # -(len(D) + len(payload)) + B + 1 <= 0
            r = f + Lin.atom(dlen) + plen
            if r.is_const() and dlen in dict(f.terms):
                c.size_limit = r.c - 1
        if c.size_limit is not None and c.result.startswith("err") and not c.capacity:
            c.capacity = [("size_limit", c.size_limit)]


def get_fsm(ctx, cfg):
    if not hasattr(ctx, "_fsm"):
        ctx._fsm = {}
    if cfg not in ctx._fsm:
        ctx._fsm[cfg] = Fsm(ctx.sentmodel(cfg))
    return ctx._fsm[cfg]
