"""C10 / C11 shared machinery — numeric field decoders.

For every numeric field the layout oracle marks as scaled and/or optional, in every Ok partition:
the decoder applied to the raw bits must be a single leaf; its complete table is recovered from its
MIR *at the value range of that call site* (unsigned 2^w, or two's complement for coordinates) and
compared with the specification: the 'not available' class is exactly {sentinel}; on every other
value the result is Some(raw * scale) with `scale` the exact rational of the specification, built
from at most one int->float cast and two floating-point operations.
"""
from __future__ import annotations
from fractions import Fraction
from ..domains import IntSet
from ..extract import Canon
from ..spec import itu
from .common import flatten, unwrap_message, strip_wrappers, leaf_table, sources
from .c04 import infer_shape

SENT = {"lon": 108600000, "lat": 54600000, "lon10": 108600, "lat10": 54600}
SCALE = {"lon": Fraction(1, 600000), "lat": Fraction(1, 600000), "lon10": Fraction(1, 600), "lat10": Fraction(1, 600),
         "scaled10": Fraction(1, 10), "scaled10opt": Fraction(1, 10), "unscaledopt": Fraction(1), "opt": Fraction(1)}


def fscale(t):
    """value of a float term as (Fraction multiple of arg0, constant Fraction, n_casts, n_ops); None if not affine-multiplicative"""
    k = t[0]
    if k == "fc":
        return (Fraction(0), Fraction(t[1]), 0, 0)
    if k == "i2f":
        if t[1] == ("sym", "arg0"):
            return (Fraction(1), Fraction(0), 1, 0)
        return None
    if k in ("fdiv", "fmul"):
        a, b = fscale(t[1]), fscale(t[2])
        if a is None or b is None:
            return None
        if b[0] == 0 and b[1] != 0:          # x op const
            c = b[1]
            if k == "fdiv":
                return (a[0] / c, a[1] / c, a[2] + b[2], a[3] + b[3] + 1)
            return (a[0] * c, a[1] * c, a[2] + b[2], a[3] + b[3] + 1)
        if k == "fmul" and a[0] == 0:
            c = a[1]
            return (b[0] * c, b[1] * c, a[2] + b[2], a[3] + b[3] + 1)
        return None
    return None


def numeric_fields(ctx, cfgs):
    """yield (cfg, I, C, struct, path, kind, term, outcome) for numeric decoder fields"""
    for cfg in cfgs:
        I, outs = ctx.layouts(cfg)
        C = Canon(I.f)
        for o in outs:
            if not o.ok:
                continue
            variant, struct, sterm = unwrap_message(o.term)
            flat = flatten(sterm)
            shape = infer_shape(struct, flat, o)
            exp = itu.expected_fields(struct, shape) or {}
            for p, (off, w, kind) in exp.items():
                k0 = kind.split(":")[0]
                if k0 in SCALE and p in flat and kind != "opt:0|short":
                    yield cfg, I, C, struct, p, kind, (off, w), flat[p], o


def _sentinel(kind, width):
    parts = kind.split(":")
    sent = SENT[parts[0]] if parts[0] in SENT else (int(parts[1]) if len(parts) > 1 and parts[1].lstrip("-").isdigit() else None)
    if sent is not None and sent < 0:
        sent += 1 << width
    return sent


def _subst_src(term, src):
    if term == src:
        return ("sym", "arg0")
    if isinstance(term, tuple):
        return tuple(_subst_src(x, src) for x in term)
    return term


def collect_inline(ctx, cfgs):
    """fields whose value is computed in the message parser itself (no decoder function): the
    (raw values -> result) table is assembled from the outcome partitions of messages::parse"""
    table = {}
    for (cfg, I, C, struct, p, kind, (off, w), term, o) in numeric_fields(ctx, cfgs):
        core, ws = strip_wrappers(term)
        if [x for x in ws if isinstance(x, tuple)]:
            continue
        signed = kind.split(":")[0] in SENT
        src = ("sext" if signed else "bits", off, w)
        ss = sources(term)
        if term == ("none",) or (ss and all(x == src for x in ss)):
            rng = IntSet.range(-(1 << (w - 1)), (1 << (w - 1)) - 1) if signed else IntSet.range(0, (1 << w) - 1)
            g = o.guard.get(src)
            codes = rng if g is None else g.intersect(rng)
            res = _subst_src(term, src)
            ent = table.setdefault((cfg, struct, p), {}).setdefault(repr(res), [res, IntSet.empty()])
            ent[1] = ent[1].union(codes)
    return table


def field_table(chk, pid, I, C, cfg, struct, p, kind, offw, term, o, cache):
    """-> (rows, callsite set, leaf) or None (a violation has been recorded)"""
    inline = cache.get("inline", {}).get((cfg, struct, p))
    if inline is not None:
        off, w = offw
        signed = kind.split(":")[0] in SENT
        rng = IntSet.range(-(1 << (w - 1)), (1 << (w - 1)) - 1) if signed else IntSet.range(0, (1 << w) - 1)
        rows = [((codes,), res, None, None) for (res, codes) in inline.values()]
        return rows, rng, "inline:%s.%s" % (struct, p)
    core, ws = strip_wrappers(term)
    leaves = [x for x in ws if isinstance(x, tuple)]
    off, w = offw
    if core[0] not in ("bits", "sext") or len(leaves) != 1 or leaves[0][2] != ():
        chk.ob(False, "%s/shape/%s/%s" % (pid, struct, p), "%s.%s [%s]: not a single value decoder applied to the raw field: %r" % (struct, p, cfg, term))
        return None
    leaf = leaves[0][1]
    # the raw value that is scaled / compared with the sentinel must be the transmitted field itself
    if (core[1], core[2]) != (off, w):
        chk.ob(False, "%s/position/%s/%s/got=%s+%s/want=%s+%s" % (pid, struct, p, core[1], core[2], off, w),
               "%s.%s [%s]: decoded from bits %s+%s, the field is transmitted at bits %s+%s" % (struct, p, cfg, core[1], core[2], off, w))
        return None
    if core[0] == "sext":
        rng = IntSet.range(-(1 << (w - 1)), (1 << (w - 1)) - 1)
    else:
        rng = IntSet.range(0, (1 << w) - 1)
    extras = leaves[0][3]
    ci = leaves[0][4] if len(leaves[0]) > 4 else 0
    others = []
    for e in extras:
        if e == ("bits", 0, 6):
            others.append(o.tset())
        elif isinstance(e, tuple) and len(e) == 2 and e[0] == "const" and isinstance(e[1], int):
            others.append(IntSet.of(e[1]))      # a captured constant (the sentinel passed to a shared helper)
        else:
            chk.ob(False, "%s/extra-arg/%s/%s/%s" % (pid, struct, p, e), "%s.%s [%s]: decoder also depends on %r" % (struct, p, cfg, e))
            return None
    argsets = others[:ci] + [rng] + others[ci:]
    key = (cfg, leaf, tuple(s.iv for s in argsets), ci)
    if key not in cache:
        rows = leaf_table(I, C, leaf, argsets)
        if ci != 0:
            # present the table with the decoded value as argument 0
            def ren(t):
                if t == ("sym", "arg%d" % ci):
                    return ("sym", "arg0")
                if t == ("sym", "arg0"):
                    return ("sym", "arg%d" % ci)
                if isinstance(t, tuple):
                    return tuple(ren(x) for x in t)
                return t
            rows = [((sets[ci],) + tuple(x for i, x in enumerate(sets) if i != ci), ren(term), s2, rv) for (sets, term, s2, rv) in rows]
        cache[key] = rows
    return cache[key], rng, leaf


def run(ctx, chk):
    cfgs = ctx.configs()
    ctx.prefetch(cfgs)
    cache = {"inline": collect_inline(ctx, cfgs)}
    done = set()
    n = 0
    for (cfg, I, C, struct, p, kind, offw, term, o) in numeric_fields(ctx, cfgs):
        k0 = kind.split(":")[0]
        r = field_table(chk, "C10", I, C, cfg, struct, p, kind, offw, term, o, cache)
        if r is None:
            continue
        rows, rng, leaf = r
        # width / signedness (the C04 source) restated for the coordinate fields
        core, _ = strip_wrappers(term)
        if k0 in SENT and term == ("none",) and leaf.startswith("inline:"):
            # the absent branch of a coordinate decided in the message parser itself: the decision
            # must have been taken on the transmitted field (the value branch is checked below
            # when its own outcome comes up)
            chk.ob(("sext", offw[0], offw[1]) in o.guard or ("bits", offw[0], offw[1]) in o.guard, "C10/signed/%s/%s/absent-without-guard" % (struct, p),
                   "%s.%s [%s]: coordinate absent without a test of its %d-bit field" % (struct, p, cfg, offw[1]))
        elif k0 in SENT and leaf.startswith("inline:"):
            ss = sources(term)
            chk.ob(bool(ss) and all(x == ("sext", offw[0], offw[1]) for x in ss), "C10/signed/%s/%s/%s" % (struct, p, sorted(set(ss))),
                   "%s.%s [%s]: coordinate must be computed from the %d-bit two's complement field, uses %r" % (struct, p, cfg, offw[1], sorted(set(ss))))
        elif k0 in SENT:
            chk.ob(core[0] == "sext" and core[2] == offw[1], "C10/signed/%s/%s/%s" % (struct, p, core),
                   "%s.%s [%s]: coordinate must be the %d-bit two's complement field, extracted %r" % (struct, p, cfg, offw[1], core),
                   sample={"field": struct + "." + p, "source": list(core)})
        dk = (cfg, struct, p, leaf, rng.iv, tuple(sorted(o.tset().values())))
        if dk in done:
            continue
        done.add(dk)
        n += 1
        want = SCALE[k0]
        for (sets, res, s2, rv) in rows:
            codes = sets[0]
            if res == ("none",):
                # only the field's 'not available' code may lack a scaled value (which code that is, is C11's
                # business; here: every other raw value must be reported, scaled)
                if k0 == "opt":
                    continue      # plain optional integers (heading, dates, ...) belong to C11 alone
                sent = _sentinel(kind, offw[1])
                extra = codes if sent is None else codes.minus(IntSet.of(sent))
                chk.ob(extra.is_empty(), "C10/unscaled/%s/%s/%s" % (struct, p, extra.iv[:2]),
                       "%s.%s [%s, decoder %s]: no value is reported for raw values %r, expected raw*%s" % (struct, p, cfg, leaf, extra, want))
                continue
            if res[0] == "some":
                val = res[1]
            elif res[0] == "float" and k0 == "scaled10":
                val = res
            else:
                chk.ob(False, "C10/result/%s/%s/%s" % (struct, p, res[0]), "%s.%s [%s]: decoder result is %r" % (struct, p, cfg, res))
                continue
            okk, why = scale_ok(val, want, codes)
            chk.ob(okk, "C10/scale/%s/%s/%s/%s" % (struct, p, codes.iv[:2], why), "%s.%s [%s, decoder %s]: for raw values %r the result is %s, expected raw*%s" % (struct, p, cfg, leaf, codes, why, want),
                   sample={"field": struct + "." + p, "raw": repr(codes), "scale": str(want)})
    chk.cov["configs"] = cfgs
    chk.cov["programs"] = len(cfgs)
    chk.cov["fields"] = n
    chk.cov["trusted_base"] = ["rustc MIR", "IEEE-754 semantics of `as f32`, `/`, `*` (the check establishes the expression, not the arithmetic)", "scales in rules/c10.py from ITU-R M.1371-5"]
    chk.assumptions += ["'correct to single-precision rounding' is established as: one exact int->f32 cast (|raw| < 2^24 except 28/27-bit coordinates) and at most two rounded operations of the exact rational"]
    chk.ob(n >= 60, "C10/floor/%d" % n, "only %d scaled fields reached" % n)


def scale_ok(val, want, codes):
    if val[0] == "float":
        fs = fscale(val[1])
        if fs is None:
            return False, "a non-linear expression %r" % (val[1],)
        mult, const, casts, ops = fs
        if casts > 1 or ops > 2:
            return False, "%d casts and %d rounded operations" % (casts, ops)
        if mult == want and const == 0:
            return True, "raw*%s" % mult
        if mult == 0 and codes.is_single() and const == want * codes.single():
            return True, "const"
        return False, "raw*%s%s" % (mult, "+%s" % const if const else "")
    if val == ("sym", "arg0"):
        return (want == 1), "raw"
    if val[0] == "const" and codes.is_single() and val[1] == want * codes.single():
        return True, "const"
    if val[0] == "adt" and len(val[3]) == 1:
        # RateOfTurn { raw }: the raw byte re-read as a signed 8-bit value
        x = val[3][0][1]
        if codes.max() <= 127 and x == ("sym", "arg0"):
            return True, "raw (non-negative)"
        if codes.min() >= 128 and x == ("lin", ((("sym", "arg0"), 1),), -256):
            return True, "raw-256 (negative)"
        return False, "wrapped %r" % (x,)
    return False, repr(val)
