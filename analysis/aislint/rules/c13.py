"""C13 — text fields are the 6-bit ASCII decoding with padding stripped.

Rule: every text field of every Ok partition is Own(trim_end(trim_end_matches('@', trim_start(
utf8(chars))))) where chars are consecutive 6-bit groups of the field's bit range, each mapped
through one leaf whose table over 0..63 is {0..31 -> v+64, 32..63 -> v} and which cannot fail on a
6-bit value.  Positions/lengths of the groups are C04/C14's.
"""
from __future__ import annotations
from ..domains import IntSet
from ..extract import Canon
from ..spec import itu
from .common import subst_term, flatten, unwrap_message, leaf_table, project_term
from .c04 import infer_shape, text_chars

WANT_TRIMS = ("trim_end", ("trim_end_matches", 64), "trim_start")    # outermost first


def run(ctx, chk):
    cfgs = ctx.configs()
    ctx.prefetch(cfgs)
    n = 0
    for cfg in cfgs:
        I, outs = ctx.layouts(cfg)
        C = Canon(I.f)
        leaves = set()
        for o in outs:
            if not o.ok:
                continue
            variant, struct, sterm = unwrap_message(o.term)
            flat = flatten(sterm)
            shape = infer_shape(struct, flat, o)
            exp = itu.expected_fields(struct, shape) or {}
            for p, (off, w, kind) in exp.items():
                if kind != "text" or p not in flat:
                    continue
                tc = text_chars(flat[p])
                if tc is None:
                    chk.ob(False, "C13/shape/%s/%s" % (struct, p), "%s.%s [%s]: not a decoded 6-bit text: %r" % (struct, p, cfg, flat[p]))
                    continue
                start, nchars, leaf, trims = tc
                n += 1
                if w == "rest6":
                    # the text is the decoding of its whole bit range: every complete 6-bit group
                    # between the header and the end of the payload
                    head = off
                    ns = o.nset()
                    for nb in ([ns.min()] if ns.is_single() else [ns.min(), min(ns.max(), 1000), 200]):
                        if not ns.contains(nb):
                            continue
                        want = (8 * nb - head) // 6
                        got = nchars if isinstance(nchars, int) else (want if nchars == ("fdiv", ("lin", ((("len", "P"), 8),), -head), 6) else None)
                        chk.ob(got == want, "C13/range/%s/%s/%s/%s" % (struct, p, nb, got), "%s.%s [%s] at %d bytes decodes %s characters; its bit range holds %d" % (struct, p, cfg, nb, got if got is not None else nchars, want))
                if struct == "StaticAndVoyageRelatedData" and p == "destination" and isinstance(nchars, int) and o.nset().is_single():
                    # the one fixed-width text the crate decodes from truncated messages: "the decoding of
                    # its bit range" is every whole character of the 20-character field that the payload holds
                    nb = o.nset().min()
                    want = max(0, min(20, (8 * nb - off) // 6))
                    chk.ob(nchars == want, "C13/range/%s/%s/%s/%s" % (struct, p, nb, nchars),
                           "%s.%s [%s] at %d bytes decodes %d characters; its bit range holds %d whole characters" % (struct, p, cfg, nb, nchars, want))
                chk.ob(trims == WANT_TRIMS, "C13/trims/%s/%s/%s" % (struct, p, trims),
                       "%s.%s [%s]: padding is stripped as %r, expected leading spaces, then trailing '@', then trailing spaces" % (struct, p, cfg, trims),
                       sample={"field": struct + "." + p, "chars": str(nchars), "from_bit": start, "trims": [str(t) for t in trims]})
                if leaf is None:
                    continue      # zero characters
                apps = [x for x in leaf if isinstance(x, tuple)]
                if len(apps) != 1 or apps[0][3] != ():
                    chk.ob(False, "C13/leaf/%s/%s" % (struct, p), "%s.%s [%s]: characters are not mapped through a single table: %r" % (struct, p, cfg, leaf))
                    continue
                leaves.add((apps[0][1], apps[0][2]))
        chk.ob(len(leaves) >= 1, "C13/no-leaf/%s" % cfg, "no 6-bit character decoder reached [%s]" % cfg)
        for (leaf, proj) in sorted(leaves):
            rows = leaf_table(I, C, leaf, [IntSet.range(0, 63)])
            covered = IntSet.empty()
            for (sets, res, s2, rv) in rows:
                codes = sets[0]
                covered = covered.union(codes)
                val = project_term(res, proj)
                if val is None:
                    chk.ob(False, "C13/fail/%s" % (codes,), "character decoder %s [%s] fails for 6-bit values %r" % (leaf, cfg, codes))
                    continue
                # value by value (a match on ranges and a lookup table are the same decoder)
                for lo, hi in codes.iv:
                    bad = []
                    for code in range(int(lo), int(hi) + 1):
                        got = subst_term(val, {"arg0": code})
                        want = ("const", code + 64 if code < 32 else code)
                        if got != want:
                            bad.append((code, got))
                    chk.ob(not bad, "C13/table/%s" % (",".join("%d=%s" % (c, g[1] if g[0] == "const" else "?") for c, g in bad[:4]),),
                           "6-bit values %r decode to %r [%s, %s], expected value+64 below 32 and the value itself from 32" % ([c for c, _ in bad[:8]], [g for _, g in bad[:4]], cfg, leaf),
                           sample={"sixbit": [lo, hi], "ascii": "v+64 | v"})
            chk.ob(covered == IntSet.range(0, 63), "C13/table/coverage/%s" % covered, "character table covers %r, expected 0..63 [%s]" % (covered, cfg))
    chk.cov["configs"] = cfgs
    chk.cov["programs"] = len(cfgs)
    chk.cov["text_fields"] = n
    chk.cov["trusted_base"] = ["rustc MIR", "core::str::{from_utf8, trim_start, trim_end_matches, trim_end} documented semantics", "nom count / local count (interpreted)"]
    chk.ob(n >= 30, "C13/floor/%d" % n, "only %d text fields reached" % n)
