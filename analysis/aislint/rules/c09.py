"""C09 — the decoded variant follows the 6-bit type; unsupported types are errors.

Rule: in the partition of messages::parse, for each of the 64 type values: the listed types have
Ok partitions, all of them with the AisMessage variant / struct named by the table and with the
struct's message_type field being exactly bits [0,6) of the payload; every other type value has
only Err partitions, at every length.

Decode linkage (the same statement seen through AisParser::parse): on every path of the parser that
reports a decoded message, the message is the Ok value of exactly one call of messages::parse, whose
argument is the Ok value of exactly one call of messages::unarmor on the delivered payload - nothing
else (no state kept between lines, no other buffer) can reach the dispatcher.
"""
from __future__ import annotations
from ..domains import IntSet
from ..spec import itu
from .common import flatten, unwrap_message
from .fsm import get_fsm


def decode_linkage(ctx, chk, cfg):
    fsm = get_fsm(ctx, cfg)
    n = 0
    for c in fsm.cells:
        if c.sentence is None:
            continue
        un = [e for e in c.calls if e[1].endswith("messages::unarmor")]
        pa = [e for e in c.calls if e[1].endswith("messages::parse")]
        if c.message in (None, "None"):
            continue
        n += 1
        okk = len(un) == 1 and len(pa) == 1
        arg = pa[0][2][0] if len(pa) == 1 and pa[0][2] else None
        link = okk and arg == ("refto", ("opaque", "stub:%s#1.ok.deref" % un[0][1]))
        msg = okk and c.message == "?<stub:%s#1.ok>" % pa[0][1]
        data = okk and len(un[0][2]) == 2 and un[0][2][0][0] == "slice" and isinstance(un[0][2][0][1], tuple) and un[0][2][0][1][0] == "seq" \
            and fsm.seq_name(c, un[0][2][0][1][1]) == c.delivered
        chk.ob(link and msg and data, "C09/decode-link/%s/%d,%d/%s%s%s" % (c.result, len(un), len(pa), "L" if link else "-", "M" if msg else "-", "D" if data else "-"),
               "decoding path [%s, %s]: the reported message must be messages::parse(unarmor(delivered payload)); found %d unarmor / %d parse calls, parse argument %r, message %s" % (
                   cfg, c.result, len(un), len(pa), arg, c.message),
               sample={"decode_path": c.result, "message": "parse(unarmor(delivered))"})
    chk.ob(n >= 4, "C09/decode-link/floor/%s/%d" % (cfg, n), "decoding paths examined [%s]: %d" % (cfg, n))
    return n


def run(ctx, chk):
    cfgs = ctx.configs()
    ctx.prefetch(cfgs)
    for cfg in cfgs:
        I, outs = ctx.layouts(cfg)
        by_type = {t: [] for t in range(64)}
        covered = {t: IntSet.empty() for t in range(64)}
        for o in outs:
            for t in o.tset().values():
                by_type[t].append(o)
                covered[t] = covered[t].union(o.nset())
        for t in range(64):
            os_ = by_type[t]
            # the partition must cover every length for every type value
            chk.ob(IntSet.range(1, (1 << 28) - 1).subset_of(covered[t]), "C09/%s/coverage/%d" % (cfg, t),
                   "type %d [%s]: extracted partitions do not cover all payload lengths" % (t, cfg))
            oks = [o for o in os_ if o.ok]
            if t in itu.DISPATCH:
                want_variant, want_struct = itu.DISPATCH[t]
                chk.ob(bool(oks), "C09/%s/no-ok/%d" % (cfg, t), "type %d [%s]: never decodes" % (t, cfg))
                seen = set()
                for o in oks:
                    variant, struct, sterm = unwrap_message(o.term)
                    seen.add((variant, struct))
                    mt = flatten(sterm).get("message_type")
                    chk.ob(mt == ("bits", 0, 6), "C09/%s/message_type/%s/%s" % ("any", struct, mt),
                           "%s.message_type [%s] is %r, not the six type bits the dispatcher switched on" % (struct, cfg, mt))
                chk.ob(seen == {(want_variant, want_struct)}, "C09/any/variant/%d/%s" % (t, sorted(seen)),
                       "type %d [%s] decodes as %s, the specification says AisMessage::%s(%s)" % (t, cfg, sorted(seen), want_variant, want_struct),
                       sample={"type": t, "variant": want_variant, "struct": want_struct, "config": cfg})
            else:
                bad = set()
                for o in oks:
                    variant, struct, _ = unwrap_message(o.term)
                    bad.add(variant)
                chk.ob(not oks, "C09/any/unsupported-accepted/%d/%s" % (t, sorted(bad)),
                       "unsupported type %d [%s] yields a message (%s) instead of an error" % (t, cfg, sorted(bad)),
                       sample={"type": t, "outcome": "Err at every length", "config": cfg})
    # the kind a decoded message reports about itself (`AisMessageType::name`): one constant per
    # message type, no two types sharing a name (a decoded type 13 must not call itself type 7)
    from ..interp import Interp, St
    from ..values import VStr, VRef, VOpaque
    from .. import xform
    for cfg in cfgs:
        f = ctx.facts(cfg)
        names = {}
        for b in sorted(f.bodies.values(), key=lambda b: b["def"]):
            if not ((b.get("impl_trait") or "").endswith("AisMessageType") and b["def"].endswith("::name")):
                continue
            I2 = Interp(f, xform.EXT)
            st0 = St()
            outs = I2.exec_fn(st0, b, [VRef(I2.new_cell(st0, VOpaque("self")), ())])
            vals = set()
            for st, rv in outs:
                vals.add(rv.term[1] if isinstance(rv, VStr) and isinstance(rv.term, tuple) and rv.term[0] == "cstr" else repr(rv))
            ty = (b.get("impl_self") or b["def"]).split("<")[0].rsplit("::", 1)[-1]
            chk.ob(len(vals) == 1 and all(isinstance(v, (bytes, str)) for v in vals), "C09/name/not-constant/%s" % ty, "%s::name() [%s] is not one constant string: %r" % (ty, cfg, sorted(map(repr, vals))))
            for v in vals:
                names.setdefault(v, []).append(ty)
        dup = {k: v for k, v in names.items() if len(v) > 1}
        chk.ob(not dup, "C09/name/shared/%s" % (sorted(sum(dup.values(), [])),), "message kinds that report the same name() [%s]: %r" % (cfg, dup),
               sample={"message_names": len(names)})
        chk.ob(len(names) >= 20, "C09/name/floor/%d" % len(names), "only %d AisMessageType::name impls found [%s]" % (len(names), cfg))
    chk.cov["decode_paths_linked"] = sum(decode_linkage(ctx, chk, cfg) for cfg in cfgs)
    chk.cov["configs"] = cfgs
    chk.cov["programs"] = len(cfgs)
    chk.cov["type_values"] = 64
    chk.cov["exhaustive"] = True
    chk.cov["trusted_base"] = ["rustc MIR", "nom bits::take contract", "dispatch table of C09 in spec/itu.py"]
