"""C06 — only a complete in-order group ever produces a multi-fragment message.

(1) the extracted transition relation equals the reference machine on the whole guard domain
    (shared with C05, see rules/c05.py);
(2) explicit-state exploration of the *extracted* relation (its guards evaluated on concrete
    (k, n, s, ids), its effects applied to a symbolic store of tagged fragments) over all sentence
    sequences from the initial state, to a fixed point of the abstract state space: every delivered
    multi-fragment payload must be fragments 1..k of one group in order, each used once, and every
    accepted fragment k >= 2 must directly continue an open, undelivered group with the same id.
"""
from __future__ import annotations
import numpy as np
from ..domains import IntSet
from .c05 import canon_cell, compare, eval_guard, stub_decisions, id_classes, shape_key
from .fsm import get_fsm


def step(cells, state, sent):
    """apply the extracted relation to a concrete state/sentence.  state = (sid, s, D) with D a tuple
    of (gid, k) tags; sent = (n, k, id, gid_counter).  -> (result, new state, delivered)"""
    sid, s, D = state
    n, k, idv, tag = sent
    K = np.array([[[k]]], dtype=np.int64)
    N = np.array([[[n]]], dtype=np.int64)
    S = np.array([[[s]]], dtype=np.int64)
    hits = []
    for c in cells:
        has_id = c.atoms["idv"] is not None
        if has_id != (idv is not None):
            continue
        if c.capacity:
            continue
        cu, cp = stub_decisions(c)
        if cu is False or cp is False:
            continue
        sp = 0 if sid is None else 1
        svv = 0 if sid is None else sid
        mask, _ = eval_guard(c, K, N, S, sp, svv, idv if idv is not None else 0, 0)
        if mask.any():
            hits.append(c)
    if not hits:
        return [("?0", state, None)]
    outs = []
    for c in hits:
        nsid = sid if c.post_sid == "sid" else idv
        ns = {"s": s, "k": k, "0": 0}.get(c.post_s, -1)
        P = (tag,)
        nD = {"D": D, "D+P": D + P, "P": P, "[]": ()}.get(c.post_D)
        delivered = {"P": P, "D+P": D + P, None: None}.get(c.delivered)
        if nD is None or (c.delivered is not None and delivered is None):
            # an effect on the buffer the reference machine has no name for (reported by (1) as well)
            o = ("?an effect outside the machine's vocabulary (%s / %s); " % (c.post_D, c.delivered), state, None)
            if o not in outs:
                outs.append(o)
            continue
        o = (c.result, (nsid, ns, nD), delivered)
        if o not in outs:
            outs.append(o)
    # several transitions with different effects: the sentence shapes (tag block, talker, ...) behave
    # differently; every one of them is a possible behaviour and is explored
    return outs


def initial_state(ctx, chk, cfg):
    """the state `AisParser::new()` (and `Default`) builds must be the one the exploration starts
    from: no sequence id, fragment number 0, empty buffer"""
    from ..interp import Interp, St, OPTION, lin_of
    from ..values import VAdt, VInt, VSeq, VList
    from .. import xform
    f = ctx.facts(cfg)
    roots = [b for b in f.bodies.values() if (b.get("impl_self") or "").endswith("AisParser") and (b["def"].endswith("::new") or b["def"].endswith("::default")) and b["arg_count"] == 0]
    chk.ob(len(roots) >= 1, "C06/initial/no-constructor", "no constructor of AisParser found [%s]" % cfg)
    for b in roots:
        I = Interp(f, xform.EXT)
        outs = I.exec_fn(St(), b, [])
        for st, v in outs:
            ok = isinstance(v, VAdt) and len(v.fields) == 3
            desc = repr(v)
            if ok:
                adt = f.adts[v.adt]["variants"][0]["fields"]
                byname = {fd["name"]: x for fd, x in zip(adt, v.fields)}
                mid, fn, data = byname.get("message_id"), byname.get("fragment_number"), byname.get("data")
                ok = isinstance(mid, VAdt) and mid.adt == OPTION and mid.variant == 0 \
                    and isinstance(fn, VInt) and lin_of(st, fn).is_const() and lin_of(st, fn).c == 0 \
                    and ((isinstance(data, VSeq) and data.term == ("empty",)) or (isinstance(data, VList) and not data.items))
                desc = "message_id=%r fragment_number=%r data=%r" % (mid, fn, data)
            chk.ob(ok, "C06/initial/%s/%s" % (b["def"].rsplit("::", 1)[-1], desc if not ok else "ok"),
                   "%s [%s] builds %s; a new parser must have no sequence id, fragment number 0 and an empty buffer" % (b["def"], cfg, desc),
                   sample={"constructor": b["def"], "initial_state": "(None, 0, [])"})


def explore(chk, cfg, cells):
    ids = [None, 0, 1]
    sents = [(n, k, i) for n in (1, 2, 3, 4) for k in range(1, n + 1) for i in ids]
    # abstract state: (sid, s, tuple of (relative group, k)); groups renamed in order of appearance
    init = (None, 0, ())
    seen = {init}
    work = [init]
    ntrans = 0
    viol = 0
    gid = 0
    while work:
        st = work.pop()
        for (n, k, i) in sents:
            # tag: (group marker, k, id, fresh?) - a first fragment opens a new group
            groups = sorted(set(g for (g, _, _) in st[2]))
            g = (max(groups) + 1 if groups else 0) if k == 1 else (st[2][-1][0] if st[2] else -1)
            tag = (g, k, i)
            for (res, nst, delivered) in step(cells, st, (n, k, i, tag)):
                ntrans += 1
                if res.startswith("?"):
                    chk.ob(False, "C06/explore/ambiguous/%s/n%d,k%d" % (res, n, k), "reassembly [%s]: %s extracted transitions apply to state %r, sentence n=%d k=%d id=%r" % (cfg, res[1:], st, n, k, i))
                    continue
                accepted = res in ("ok:Incomplete", "ok:Complete")
                if accepted and k >= 2:
                    sid, s, D = st
                    ok = s == k - 1 and sid == i and len(D) == s and all(t[1] == j + 1 and t[0] == D[0][0] and t[2] == i for j, t in enumerate(D)) and s >= 1
                    if not ok:
                        viol += 1
                    chk.ob(ok, "C06/explore/continues/state=%r/n%d,k%d,id%r" % (st, n, k, i),
                           "reassembly [%s]: fragment %d of %d (id %r) is accepted in state sid=%r s=%d D=%r, which is not an open group at fragment %d with that id" % (cfg, k, n, i, st[0], st[1], st[2], k - 1))
                if res == "ok:Complete" and n != 1 and delivered is not None:
                    ok = len(delivered) == k and all(t[1] == j + 1 and t[0] == delivered[0][0] for j, t in enumerate(delivered))
                    chk.ob(ok, "C06/explore/delivered/%r" % (delivered,), "reassembly [%s]: a multi-fragment message is delivered from %r, not fragments 1..%d of one group" % (cfg, delivered, k),
                           sample={"state": repr(st), "sentence": [n, k, i], "delivered": repr(delivered)})
                # canonical renaming of groups
                D2 = nst[2]
                order = []
                for t in D2:
                    if t[0] not in order:
                        order.append(t[0])
                D2 = tuple((order.index(t[0]), t[1], t[2]) for t in D2)
                nst = (nst[0], nst[1], D2)
                if len(D2) > 4 or len(seen) > 3000:
                    # a 4-fragment group never needs more than 3 stored fragments
                    chk.ob(False, "C06/explore/unbounded", "reassembly [%s]: the stored data is not bounded by the group size (state space does not close): %r" % (cfg, D2))
                    if len(seen) > 3000:
                        return len(seen), ntrans
                    continue
                if nst not in seen:
                    seen.add(nst)
                    work.append(nst)
    return len(seen), ntrans


def run(ctx, chk):
    cfgs = ctx.configs()
    ctx.prefetch(cfgs)
    tot_s = tot_t = 0
    for cfg in cfgs:
        fsm = compare(ctx, chk, "C06", cfg, ctx.tier)
        groups = {}
        for c in fsm.cells:
            groups.setdefault(shape_key(c), []).append(c)
        # no-alloc capacity errors: an Err that leaves the group exactly as it was (so that the
        # next fragment is out of sequence instead of being appended to a group with a hole)
        for c in fsm.cells:
            if c.capacity:
                unchanged = c.post_sid == "sid" and c.post_s == "s" and c.post_D == "D" and not c.stores
                closed = c.post_s == "0"      # no group is open afterwards: nothing can be continued
                ok = c.result.startswith("err") and (unchanged or closed)
                chk.ob(ok, "C06/capacity/%s/%s,%s,%s/%d" % (c.result, c.post_sid, c.post_s, c.post_D, len(c.stores)),
                       "reassembly [%s]: when the payload does not fit the fixed buffer the result is %s and the state becomes (%s, %s, %s) with %d stores; a later fragment would continue a group with a hole" % (
                           cfg, c.result, c.post_sid, c.post_s, c.post_D, len(c.stores)),
                       sample={"capacity_error": "state unchanged"})
        # the reassembly logic must not depend on the grammar shape: explore with the union of two
        # representative shape groups (with and without a sequence id), which is what a stream mixes
        with_id = [cs for k, cs in groups.items() if cs[0].atoms["idv"] is not None]
        without = [cs for k, cs in groups.items() if cs[0].atoms["idv"] is None]
        initial_state(ctx, chk, cfg)
        chk.ob(bool(with_id) and bool(without), "C06/explore/shapes", "missing grammar shapes with/without sequence id [%s]" % cfg)
        if with_id and without:
            # one representative group per distinct transition relation
            cells, seen_sig = [], set()
            for cs in with_id + without:
                sig = (cs[0].atoms["idv"] is not None, tuple(sorted(map(repr, (canon_cell(c) for c in cs)))))
                if sig not in seen_sig:
                    seen_sig.add(sig)
                    cells += cs
            ns, nt = explore(chk, cfg, cells)
            tot_s += ns
            tot_t += nt
            chk.note("%s: explicit exploration of the extracted relation reached a fixed point with %d abstract states, %d transitions" % (cfg, ns, nt))
    chk.cov["configs"] = cfgs
    chk.cov["explored_states"] = tot_s
    chk.cov["explored_transitions"] = tot_t
    chk.cov["traces_validated_against_impl"] = 0
    chk.cov["trusted_base"] = ["rustc MIR", "Vec::extend_from_slice / mem::swap / Option<u8>::ne / u8::checked_sub contracts", "reference machine spec/reassembly.py"]
