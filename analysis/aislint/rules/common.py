"""Helpers shared by the rule modules: flattening of outcome terms, shapes, sources."""
from __future__ import annotations
from ..domains import IntSet, INF


def last(name):
    return name.rsplit("::", 1)[-1]


def flatten(term, prefix=""):
    """dict path -> leaf term for a canonical outcome term"""
    out = {}
    k = term[0]
    if k == "adt":
        _, name, variant, fields = term
        is_struct = last(name) == variant
        base = prefix if is_struct else prefix + "#" + variant
        for (fname, t) in fields:
            p = (base + "." if base else "") + fname
            out.update(flatten(t, p))
        if not fields:
            out[prefix] = ("unitvariant", variant)
        return out
    if k == "list":
        for i, t in enumerate(term[1]):
            out.update(flatten(t, "%s[%d]" % (prefix, i)))
        out[prefix + ".len"] = ("const", len(term[1]))
        return out
    out[prefix] = term
    return out


def unwrap_message(term):
    """AisMessage::Variant(Struct{..}) -> (variant, struct name, struct term)"""
    assert term[0] == "adt"
    variant = term[2]
    inner = term[3][0][1]
    return variant, last(inner[1]), inner


def sources(term, acc=None):
    """all bit sources a term depends on: ('bits'|'sext', off, w), ('elem', pos, k), ('text'...)"""
    if acc is None:
        acc = []
    if isinstance(term, tuple):
        if term and term[0] in ("bits", "sext") and len(term) == 3 and isinstance(term[2], int):
            acc.append(term)
            return acc
        if term and term[0] == "elem":
            acc.append(term)
            return acc
        for x in term:
            sources(x, acc)
    return acc


def strip_wrappers(term):
    """peel value-preserving wrappers to find how a field is derived:
    returns (core, wrappers) where wrappers is a list of ('app', leaf, proj) / 'some' / ..."""
    ws = []
    while True:
        k = term[0]
        if k == "some":
            ws.append("some")
            term = term[1]
        elif k == "app" and len(term[2]) >= 1:
            # the decoded argument: the first one that is not the message-type bits (a helper may take
            # `message_type` before the raw value); entry = (app, leaf, proj, other args, index of the core)
            args = term[2]
            ci = 0
            if len(args) > 1 and args[0] == ("bits", 0, 6):
                ci = next((i for i, a in enumerate(args) if a != ("bits", 0, 6)), 0)
            ws.append(("app", term[1], term[3], args[:ci] + args[ci + 1:], ci))
            term = args[ci]
        else:
            return term, ws


def set_of_len(guard):
    return guard.get(("len", "P"), IntSet.range(0, (1 << 28) - 1))


# ------------------------------------------------------------------------------------------------
# leaf decoder tables

def leaf_table(I, C, leaf, argsets):
    """[(tuple of IntSets of the arguments on that path, canonical result term, St)]"""
    res, atoms = I.leaf_summary(leaf, argsets)
    out = []
    for (s2, rv) in res:
        sets = tuple((s2.aset(a) if a is not None else None) for a in atoms)
        out.append((sets, C.val(s2, rv), s2, rv))
    return out


def project_term(term, proj):
    """apply a VApp projection (('variant', i), ('f', j)) ... to a canonical term (Result only)"""
    for p in proj:
        if p[0] == "variant":
            if term[0] == "adt" and term[1].endswith("Result"):
                want = {0: "Ok", 1: "Err"}[p[1]]
                if term[2] != want:
                    return None
            else:
                return None
        elif p[0] == "f":
            if term[0] == "adt":
                term = term[3][p[1]][1]
    return term


def subst_term(term, env):
    """canonical term with ('sym', name) replaced by constants and constant linear forms folded"""
    if not isinstance(term, tuple) or not term:
        return term
    if term[0] == "sym" and len(term) == 2 and term[1] in env:
        return ("const", env[term[1]])
    if term[0] == "sym" and len(term) == 4 and term[1] in env:
        return ("const", env[term[1]])
    if term[0] == "atom" and len(term) >= 3 and term[1] == "opqint" and isinstance(term[2], tuple) and term[2][:2] == ("atom", "bv"):
        v = _bv_value(term[2][2], env)
        if v is not None:
            return ("const", v)
    if term[:2] == ("atom", "bv") and len(term) == 3:
        v = _bv_value(term[2], env)
        if v is not None:
            return ("const", v)
    if term[0] == "lin" and len(term) == 3 and isinstance(term[1], tuple):
        tot = term[2]
        rest = []
        for (a, k) in term[1]:
            a2 = subst_term(a, env)
            if isinstance(a2, tuple) and a2 and a2[0] == "const":
                tot += k * a2[1]
            else:
                rest.append((a2, k))
        if not rest:
            return ("const", tot)
        return ("lin", tuple(rest), tot)
    return tuple(subst_term(x, env) for x in term)


def _bv_value(cells, env):
    """value of a bit pattern (most significant cell first) whose cells are constants, bits of
    ('sym', name, ..) atoms bound in env, and not / and / or / xor of such; None if a cell is not"""
    def bit(c):
        if c in (0, 1):
            return c
        if not isinstance(c, tuple):
            raise ValueError
        if isinstance(c[0], tuple):
            a, i = c
            if a and a[0] == "sym" and a[1] in env and isinstance(i, int):
                return (env[a[1]] >> i) & 1
            raise ValueError
        if c[0] == "not":
            return 1 - bit(c[1])
        if c[0] == "BitAnd":
            return bit(c[1]) & bit(c[2])
        if c[0] == "BitOr":
            return bit(c[1]) | bit(c[2])
        if c[0] == "BitXor":
            return bit(c[1]) ^ bit(c[2])
        raise ValueError
    try:
        v = 0
        for c in cells:
            v = (v << 1) | bit(c)
        return v
    except (ValueError, TypeError, IndexError):
        return None


def pointwise(rows, limit=1024):
    """{code: term with arg0 := code} for a single-integer-argument leaf table of at most `limit` codes, else None"""
    out = {}
    for (sets, term, s2, rv) in rows:
        if len(sets) != 1 or sets[0] is None or sets[0].size() > limit:
            return None
        for c in sets[0].values():
            if c in out:
                return None
            out[c] = subst_term(term, {"arg0": c})
        if len(out) > limit:
            return None
    return out


def inline_flag(term):
    """a boolean computed in the message parser from exactly one transmitted bit, e.g.
    `bits == 1`, `bits != 0` or nom's `bits::complete::bool`: returns (source, {0: bool, 1: bool})
    or None when the term is not of that form"""
    if not (isinstance(term, tuple) and len(term) == 2 and term[0] == "bool"):
        return None
    ss = set(sources(term[1]))
    if len(ss) != 1:
        return None
    src = next(iter(ss))
    if src[0] != "bits" or src[2] != 1:
        return None

    def lin_val(l, v):
        if l == src:
            return v
        if l[0] == "const":
            return l[1]
        if l[0] == "lin":
            tot = l[2]
            for a, k in l[1]:
                if a != src:
                    raise ValueError
                tot += k * v
            return tot
        raise ValueError

    def ev(c, v):
        if c is True or c is False:
            return c
        if c[0] == "in":
            if c[1] != src:
                raise ValueError
            return any(lo <= v <= hi for lo, hi in c[2])
        if c[0] == "le0":
            return lin_val(c[1], v) <= 0
        if c[0] == "not":
            return not ev(c[1], v)
        if c[0] == "and":
            return ev(c[1], v) and ev(c[2], v)
        if c[0] == "or":
            return ev(c[1], v) or ev(c[2], v)
        raise ValueError

    try:
        return src, {0: ev(term[1], 0), 1: ev(term[1], 1)}
    except (ValueError, TypeError, IndexError):
        return None


CMP_TRAITS = ("cmp::PartialEq", "cmp::Eq", "hash::Hash", "cmp::PartialOrd", "cmp::Ord", "clone::Clone")


def check_derived_impls(ctx, chk, pid, cfgs, want, floor, what):
    """The properties speak of decoded *values*: "the same value", "distinct values", "exactly the
    payload".  Users observe values through `==`, `clone()`, hashing and ordering, so these impls
    of the types a property covers must be the compiler-derived, structural ones.  A hand-written
    impl is reported as unanalysable (a correct one would be a false alarm: deciding that an
    arbitrary `eq` / `clone` body is structural is out of reach)."""
    for cfg in cfgs:
        f = ctx.facts(cfg)
        n = 0
        for b in f.bodies.values():
            tr = b.get("impl_trait") or ""
            if not any(tr.endswith(t) for t in CMP_TRAITS):
                continue
            full = (b.get("impl_self") or "").split("<")[0]
            short = full.rsplit("::", 1)[-1]
            if not want(short, full):
                continue
            n += 1
            tn = tr.rsplit("::", 1)[-1]
            chk.ob(bool(b.get("derived")), "%s/manual-%s/%s/%s" % (pid, "clone" if tn == "Clone" else "eq", short, tn),
                   "reason=unanalysable: %s for %s [%s] is hand-written (%s): %s is decided for structural (derived) %s only" % (
                       tn, full, cfg, b["def"], what, "copies" if tn == "Clone" else "comparison"),
                   sample={"type": short, "impl": tn, "derived": True})
        chk.ob(n >= floor, "%s/derived-impls-floor/%d" % (pid, n), "only %d comparison / clone impls of the covered types found [%s]" % (n, cfg))


def rot_accessor_summary(f, meth):
    """RateOfTurn::rate / direction interpreted on every raw value parse() can produce (-127..127):
    [(raw values, result value)] or None when the method is missing; raises Unanalysable"""
    from ..interp import Interp, St
    from ..values import VAdt, VInt, VRef
    from ..domains import Lin
    from .. import xform
    bs = [b for b in f.bodies.values() if b["def"].endswith("::" + meth) and (b.get("impl_self") or "").endswith("RateOfTurn") and not b.get("impl_trait")]
    if len(bs) != 1:
        return None
    b = bs[0]
    I2 = Interp(f, xform.EXT)
    st0 = St()
    atom = ("sym", "self.raw", -127, 127)
    selft = f.types[b["locals"][1]]
    adt = selft["def"] if selft["k"] == "adt" else f.types[selft["ty"]]["def"]
    selfv = VAdt(adt, 0, (VInt(8, True, lin=Lin.atom(atom)),))
    if selft["k"] == "ref":
        selfv = VRef(I2.new_cell(st0, selfv), ())
    outs = I2.exec_fn(st0, b, [selfv])
    return [(st.aset(atom), rv) for st, rv in outs]
