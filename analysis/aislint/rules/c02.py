"""C02 — checksum gate.

R2.1 must-pass-through: on every path of AisParser::parse, a successful return of the checksum
     function precedes every store through `self` and every Ok result; a failed one is returned
     as the error it produced, with no store.  The checksum function is identified semantically
     (the unique local pure function that constructs Error::Checksum).
R2.2 its table, for a symbolic slice S and byte e: Ok iff e == Fold(S, 0, xor) over the whole of S,
     else Err(Checksum{expected: e, found: Fold});  the comparison is full width.
R2.3 at the call, S is the line from just after the start delimiter up to the first '*' after it
     and e is the hexadecimal number read right after the terminating '*', known to be <= 0xFF.
"""
from __future__ import annotations
from ..domains import IntSet, Lin
from ..values import VAdt, VInt, VSlice
from ..interp import VApp, RESULT, lin_of
from .fsm import get_fsm
from .common import leaf_table


def run(ctx, chk):
    cfgs = ctx.configs()
    ctx.prefetch(cfgs)
    for cfg in cfgs:
        fsm = get_fsm(ctx, cfg)
        m = fsm.m
        leaf = m.checksum_leaf
        # ---- R2.1
        n_ok = n_err = 0
        for p in m.paths:
            ev = p.events
            idx_res = [i for i, e in enumerate(ev) if e[0] == "leaf_result" and e[1] == leaf]
            idx_store = [i for i, e in enumerate(ev) if e[0] == "store" and e[1] == m.cell]
            passed = [i for i in idx_res if ev[i][2] is True]
            if p.kind.startswith("ok:"):
                n_ok += 1
                chk.ob(bool(passed), "C02/ungated-accept/%s" % p.kind, "a line is accepted (%s) [%s] on a path that never passed the checksum comparison" % (p.kind, cfg),
                       sample={"path": p.kind, "checksum_before_first_store": True})
            if p.kind.startswith("err:") and p.kind not in ("err:form", "err:checksum"):
                # "if a line is otherwise well-formed and the two values differ, the parser returns
                # a checksum error": every other rejection of a well-formed line (sequencing,
                # capacity, decoding) must come after the checksum has been verified
                chk.ob(bool(passed), "C02/rejection-before-check/%s" % p.kind,
                       "a well-formed line is rejected with %s [%s] on a path that has not compared the checksum: with a wrong checksum it would not get the checksum error" % (p.kind, cfg),
                       sample={"path": p.kind, "checksum_verified_first": True})
            if idx_store:
                chk.ob(bool(passed) and passed[0] < idx_store[0], "C02/store-before-check/%s" % p.kind,
                       "the parser state is written [%s] before the checksum has been verified (path ending in %s)" % (cfg, p.kind))
            failed = [i for i in idx_res if ev[i][2] is False]
            if failed:
                n_err += 1
                rv = p.rv
                e = rv.fields[0] if isinstance(rv, VAdt) and rv.adt == RESULT and rv.variant == 1 else None
                chk.ob(isinstance(e, VApp) and e.defn == leaf and not idx_store, "C02/mismatch-path/%s/%d" % (p.kind, len(idx_store)),
                       "a checksum mismatch [%s] does not return the checksum error unchanged (result %s, %d stores)" % (cfg, p.kind, len(idx_store)))
        chk.ob(n_ok >= 8 and n_err >= 4, "C02/floor/%d/%d" % (n_ok, n_err), "too few paths [%s]: %d accepting, %d checksum failures" % (cfg, n_ok, n_err))
        # ---- R2.2
        rows = leaf_table(m.I, m.C, leaf, [None, IntSet.range(0, 255)])
        kinds = {}
        fold_seen = set()
        for (sets, res, s2, rv) in rows:
            if not (isinstance(rv, VAdt) and rv.adt == RESULT):
                chk.ob(False, "C02/leaf/result", "checksum function returns %r" % (rv,))
                continue
            facts = s2.pc.facts
            e_atom = ("sym", "arg1", 0, 255)
            folds = set(a for f in facts for a in f.atoms() if a[0] == "opqint" and a[1] == "fold")
            fold_seen |= folds
            rel = relation(facts, e_atom, folds)
            if rv.variant == 0:
                kinds.setdefault("ok", []).append(rel)
            else:
                payload = rv.fields[0]
                names = m.C.field_names(payload.adt, payload.variant) if isinstance(payload, VAdt) else None
                vname = m.C.variant_name(payload.adt, payload.variant) if isinstance(payload, VAdt) else "?"
                okp = vname == "Checksum" and names is not None
                if okp:
                    d = dict(zip(names, payload.fields))
                    ex, fo = d.get("expected"), d.get("found")
                    okp = isinstance(ex, VInt) and lin_of(s2, ex) == Lin.atom(e_atom) and isinstance(fo, VInt) and len(folds) == 1 and lin_of(s2, fo) == Lin.atom(list(folds)[0])
                chk.ob(okp, "C02/leaf/error-payload/%s" % vname, "checksum error [%s] does not carry expected = transmitted value and found = computed value: %r" % (cfg, payload))
                kinds.setdefault("err", []).append(rel)
        chk.ob(sorted(kinds.get("ok", [])) == ["eq"] and sorted(kinds.get("err", [])) == ["gt", "lt"], "C02/leaf/partition/%r" % (kinds,),
               "checksum function [%s]: Ok for %r and Err for %r, expected Ok exactly when transmitted == computed" % (cfg, kinds.get("ok"), kinds.get("err")),
               sample={"checksum_fn": leaf, "ok_when": "expected == fold", "err_when": "expected != fold"})
        chk.ob(len(fold_seen) == 1, "C02/leaf/fold/%d" % len(fold_seen), "checksum function [%s] does not compare with a single fold of its slice" % cfg)
        for fa in fold_seen:
            _, _, slk, initk, opk = fa[:5]
            whole = slk == ("slice", "$arg0", ("lin", (), 0), ("lin", ((("len", "$arg0"), 1),), 0))
            chk.ob(whole, "C02/leaf/fold-range/%r" % (slk,), "checksum [%s] folds over %r, not the whole slice" % (cfg, slk))
            chk.ob(initk == ("lin", (), 0), "C02/leaf/fold-init/%r" % (initk,), "checksum [%s] fold starts from %r, not 0" % (cfg, initk))
            cells = None
            if opk[0] == "int" and opk[1] == 8:
                if opk[3][0] == "bv":
                    cells = opk[3][1]
                elif opk[3][0] == "lin" and len(opk[3][1]) == 1 and opk[3][1][0][1] == 1 and opk[3][2] == 0:
                    a0 = opk[3][1][0][0]
                    if a0[0] == "opqint" and isinstance(a0[1], tuple) and a0[1][0] == "bv":
                        cells = a0[1][1]
            okx = cells is not None and len(cells) == 8 and all(
                c == ("BitXor", (("sym", "$acc", 0, 255), 7 - i), (("sym", "$elem", 0, 255), 7 - i)) or c == ("BitXor", (("sym", "$elem", 0, 255), 7 - i), (("sym", "$acc", 0, 255), 7 - i))
                for i, c in enumerate(cells))
            chk.ob(okx, "C02/leaf/fold-op/%s" % (str(opk)[:80],), "checksum [%s] fold step is not acc ^ byte on all 8 bits: %r" % (cfg, opk),
                   sample={"fold": "xor over the whole slice from 0"})
        # ---- R2.3
        n = 0
        corner = 0
        for c in fsm.cells + [x for x in fsm.rejected if getattr(x, "roles", None)]:
            p = c.path
            for call in p.checksum_calls:
                n += 1
                slk, ek = call[2]
                r = c.roles
                body_start = r["talker"].start
                # (peeked or consumed: what matters is the range [start+1, first '*'))
                peeks = [e for e in p.events if e[0] in ("gp", "g") and e[1] == "take_until" and e[2] == b"*" and e[4] == body_start]
                # the same range written as an unbounded run of non-'*' bytes that is followed by a '*'
                peeks += [e for e in p.events if e[0] in ("gp", "g") and e[1] == "run" and e[2] == (((0, 41), (43, 255)), 0, None) and e[4] == body_start
                          and p.st.aset(("byte", "L", e[5].key())) == IntSet.of(42)]
                okk = len(peeks) == 1 and slk == ("slice", "L", body_start.key(), (peeks[0][5] - body_start).key())
                chk.ob(okk, "C02/operand/slice/%r" % (slk[2:],), "checksum [%s] is computed over %r, not the bytes from just after the start delimiter to the first '*'" % (cfg, slk))
                hx = ("hexval", "L", r["checksum"].start.key(), 0, (1 << 32) - 1)
                oke = ek == ("int", 8, False, ("lin", ((hx, 1),), 0)) and p.st.aset(hx).max() <= 255
                chk.ob(oke, "C02/operand/expected/%r" % (ek[3] if len(ek) > 3 else ek,), "checksum [%s] is compared with %r, not the hexadecimal number after the terminating '*' (<= 0xFF)" % (cfg, ek),
                       sample={"operands": ["line[start+1 .. first '*']", "hex after '*'"]})
                if okk and peeks[0][5] != r["star"].start:
                    corner += 1
        chk.ob(n >= 8, "C02/operand/floor/%d" % n, "checksum call sites examined [%s]: %d" % (cfg, n))
        chk.note("%s: %d paths where the first '*' (checksum range) and the '*' after the fill count are not provably the same position: "
                 "a '*' inside an address/channel/payload field; C02 read literally rejects such a line, C07/C08 accept it - unarmed corner (DESIGN 5/C02)" % (cfg, corner))
    chk.cov["configs"] = cfgs
    chk.cov["trusted_base"] = ["rustc MIR", "nom take_until / hex_u32 / peek contracts", "Iterator::fold over a slice iterator visits every element once, in order"]


def relation(facts, e_atom, folds):
    """'eq' | 'lt' | 'gt' | '?' : relation between the transmitted byte and the fold on this path"""
    if len(folds) != 1:
        return "?"
    fa = list(folds)[0]
    d = Lin.atom(e_atom) - Lin.atom(fa)
    le = any(f == d for f in facts)
    ge = any(f == -d for f in facts)
    lt = any(f == d + 1 for f in facts)
    gt = any(f == -d + 1 for f in facts)
    if le and ge:
        return "eq"
    if lt:
        return "lt"
    if gt:
        return "gt"
    return "?"
