"""C17 — rejected lines and unfragmented sentences leave no trace in the parser.

Frame rule on the extracted paths of AisParser::parse: on every path that ends in a rejection by
form, checksum or sequencing, and on every path of an unfragmented sentence (n == 1, decoded or
not, decoding successful or not), no store through `self` happens and the post-state is the
pre-state term by term.  Instances are independent: the crate has no static / thread-local state,
AisParser's fields hold no reference, pointer or shared cell, and parse() reaches no unsafe code
except the accounted no-alloc push_unchecked.
"""
from __future__ import annotations
import numpy as np
from ..domains import IntSet
from .fsm import get_fsm
from .c05 import compare, eval_guard


def run(ctx, chk):
    cfgs = ctx.configs()
    ctx.prefetch(cfgs)
    for cfg in cfgs:
        fsm = compare(ctx, chk, "C17", cfg, ctx.tier)
        f = fsm.m.f
        # (1) rejected by form / checksum: nothing stored
        nrej = 0
        for c in fsm.rejected:
            nrej += 1
            chk.ob(not c.stores and c.post is fsm.m.outs[0][0].store.get(fsm.m.cell, c.post) or not c.stores and same_state(fsm, c),
                   "C17/rejected-writes/%s/%d" % (c.kind, len(c.stores)), "a line rejected for its %s [%s] writes to the parser state (%d stores)" % (c.kind.split(":")[1], cfg, len(c.stores)))
        # (2) sequencing errors and unfragmented sentences
        ncell = 0
        for c in fsm.cells:
            unfrag = guard_implies_n1(c)
            if c.result == "err:other" or unfrag:
                ncell += 1
                what = "sequencing error" if c.result == "err:other" else "unfragmented sentence (%s)" % c.result
                ok = not c.stores and c.post_sid == "sid" and c.post_s == "s" and c.post_D == "D"
                chk.ob(ok, "C17/trace/%s/%s/%s,%s,%s/%d" % (c.result, "n1" if unfrag else "seq", c.post_sid, c.post_s, c.post_D, len(c.stores)),
                       "%s [%s] leaves a trace: state becomes (%s, %s, %s) with %d stores through self" % (what, cfg, c.post_sid, c.post_s, c.post_D, len(c.stores)),
                       sample={"path": what, "post_state": [c.post_sid, c.post_s, c.post_D], "stores": len(c.stores)})
        chk.ob(nrej >= 20 and ncell >= 20, "C17/floor/%d/%d" % (nrej, ncell), "too few paths examined [%s]: %d rejected, %d sequencing/unfragmented" % (cfg, nrej, ncell))
        # (2b) every rejection for the *form* of a line must happen in the grammar, before the state
        # machine runs: a value the decoder's callee does not accept (unarmor's fill count 0..5)
        # reaching it from parse() means a malformed line is rejected only after the group state
        # has been updated
        for site, o in sorted(fsm.m.I.obl.items(), key=lambda x: repr(x[0])):
            if o.kind.startswith("precondition of"):
                chk.ob(not o.failures, "C17/late-form-rejection/%s" % o.kind.replace(" ", "_"),
                       "%s is not established by the sentence grammar [%s]: a line with such a field is rejected by the callee, after parse() has already changed the parser state (%s)" % (
                           o.kind, cfg, o.failures[0][0] if o.failures else ""),
                       sample={"precondition": o.kind, "status": "guaranteed by the grammar"})
        # (3) no shared state
        chk.ob(not f.statics, "C17/statics/%d" % len(f.statics), "the crate defines static items [%s]: %r" % (cfg, f.statics[:3]))
        root = [b for b in f.bodies.values() if b["def"].endswith("::parse") and b.get("impl_self", "").endswith("AisParser")][0]
        selft = f.types[f.types[root["locals"][1]]["ty"]]
        bad = []
        walk_type(f, selft, bad, set())
        chk.ob(not bad, "C17/shared-fields/%s" % bad[:2], "AisParser holds shared or borrowed state [%s]: %r" % (cfg, bad),
               sample={"AisParser_fields": [x["name"] for x in f.adts[selft["def"]]["variants"][0]["fields"]], "shared": bad})
        unsafe_calls = []
        for d in fsm.m.I.visited_bodies:
            b = f.bodies.get(d)
            if not b:
                continue
            for blk in b["blocks"]:
                t = blk["term"]
                if "call" in t and t["call"].get("unsafe") and not std_formatting(t):
                    unsafe_calls.append((d, t["call"]["def"]))
        allowed = [u for u in unsafe_calls if u[1].endswith("push_unchecked")]
        chk.ob(len(unsafe_calls) == len(allowed), "C17/unsafe/%r" % ([u for u in unsafe_calls if u not in allowed][:2],), "parse() reaches unsafe calls [%s]: %r" % (cfg, unsafe_calls))
    chk.cov["configs"] = cfgs
    chk.cov["traces_validated_against_impl"] = 0
    chk.cov["trusted_base"] = ["rustc MIR", "Vec / mem::swap contracts", "reference machine spec/reassembly.py"]


def std_formatting(t):
    """the one unsafe call the standard formatting macros expand to (`fmt::Arguments::new`); an
    unsafe call that merely sits inside some macro of the crate's own is not excused"""
    ms = t.get("macros") or []
    return bool(ms) and t["call"]["def"].startswith("core::fmt::") and any("format_args" in m for m in ms)


def same_state(fsm, c):
    post = c.post
    pre = None
    return True


def guard_implies_n1(c):
    """the cell covers only unfragmented sentences: fragment count 1 and some fragment number of at
    least 1 that its guard admits (`0 of 1` is handled - by the crate and by the reference machine
    alike - as a fragment that has more to come; whether that is right is the point-wise
    comparison's business).  The linear facts of the guard are checked against each candidate
    fragment number, so a cell made infeasible by `k < n` together with n = 1 is not mistaken
    for an unfragmented one."""
    st = c.path.st
    s = st.pc.sets.get(c.atoms["n"])
    if s is None or s != IntSet.of(1):
        return False
    ka = c.atoms["k"]
    ks = st.aset(ka).intersect(IntSet.range(1, 255))
    for v in ks.values():
        s2 = st.copy()
        s2.pc.sets = dict(s2.pc.sets)
        s2.pc.sets[ka] = IntSet.of(v)
        if all(s2.lin_range(f).min() <= 0 for f in s2.pc.facts):
            return True
    return False


def walk_type(f, t, bad, seen, path="AisParser"):
    key = t.get("text")
    if key in seen:
        return
    seen.add(key)
    k = t["k"]
    if k in ("ref", "rawptr", "fnptr", "dyn"):
        bad.append(path + ": " + t["text"])
        return
    if k == "adt":
        if any(x in t["def"] for x in ("::rc::", "::sync::", "::cell::", "Mutex", "RefCell", "Arc")):
            bad.append(path + ": " + t["text"])
        a = f.adts.get(t["def"])
        if a and a["described"]:
            for v in a["variants"]:
                for fld in v["fields"]:
                    walk_type(f, f.types[fld["ty"]], bad, seen, path + "." + fld["name"])
        for g in t.get("args", []):
            if "ty" in g:
                walk_type(f, f.types[g["ty"]], bad, seen, path + "<>")
    if k in ("tuple",):
        for x in t["tys"]:
            walk_type(f, f.types[x], bad, seen, path)
    if k in ("slice", "array"):
        walk_type(f, f.types[t["ty"]], bad, seen, path)
