"""C20 — the command-line tool survives any input stream.

On the MIR of the `aisparser` binary (std build), `main` is interpreted with the standard input
as an opaque environment object and one *generic* line item:
 (a) every panic-capable call in the binary's own bodies is an obligation; it may only fail when
     its receiver is an I/O error of the environment (the item produced by the line iterator), never
     because of the content of a line; the library call is C01's;
 (b) per item: a Complete result reaches the stdout printer exactly once and the stderr printer
     never; an Err reaches the stderr printer exactly once and stdout never; Incomplete neither;
 (c) the lines come from BufRead::split(b'\\n') on standard input, with no adaptor that can drop or
     stop early, drained by for_each; every path of main returns normally and no exit/abort is
     reachable;
 (f) what the tool prints for a line is what the library hands it: "each line that completes a
     message produces one record containing the decoded message ... incomplete fragments produce
     nothing ... no line affects the handling of any other line" needs the library's reassembly
     relation (result kind, delivered payload and state left behind, std build) to be the reference
     machine's - the comparison of C05/C06/C17, reported here under C20 keys.
 (g) printing cannot panic: Debug/Display impls of the library's types are derived, or, when
     hand-written, interpreted on an arbitrary value of the type with every panic an obligation.
 (h) the tool's format strings use plain placeholders only (values printed as they are).
"""
from __future__ import annotations
from ..domains import IntSet
from ..values import VAdt, VOpaque, VRef
from ..interp import Interp, St, Facts, Unanalysable, RESULT
from .. import xform


def run(ctx, chk):
    ctx.prefetch(["bin"])
    f = ctx.facts("bin", "aisparser")
    I = Interp(f, xform.EXT)
    I.watch_all = 1
    mains = [b for b in f.bodies.values() if b["def"] == f.crate + "::main"]
    chk.ob(len(mains) == 1, "C20/main/%d" % len(mains), "main not found in the binary")
    if not mains:
        return
    outs = I.exec_fn(St(), mains[0], [])
    chk.ob(len(outs) >= 1 and len(I.item_paths) >= 3, "C20/paths/%d/%d" % (len(outs), len(I.item_paths)),
           "main has %d paths and %d per-line paths; expected at least Complete / Incomplete / Err per line and a normal return" % (len(outs), len(I.item_paths)))
    # ---- (c) line source, drain, normal return
    for (st, rv) in outs:
        src = [e for e in st.events if e[0] == "line_source"]
        okk = len(src) == 1 and src[0][1] == "split" and src[0][2] == 10 and "env:stdin" in repr(src[0][3])
        chk.ob(okk, "C20/source/%r" % (src[:1],), "lines are not read with split(b'\\n') from standard input: %r" % (src,), sample={"line_source": "stdin.split(b'\\n')"})
        ad = [e for e in st.events if e[0] == "iterator_adaptor"]
        chk.ob(not ad, "C20/adaptor/%r" % (ad,), "the line iterator goes through %r, which can drop lines or stop before the end of input" % (ad,))
        dr = [e for e in st.events if e[0] == "drain"]
        chk.ob(len(dr) == 1, "C20/drain/%d" % len(dr), "the line iterator is drained %d times" % len(dr))
    # ---- (d) the tool itself never touches the parser between lines: the only access to the
    #      parser object after the line loop has started is the library call on it
    for st in [o[0] for o in outs] + list(I.item_paths):
        pcs = set(e[2][0] for e in st.events if e[0] == "extcall" and e[1].endswith("AisParser::parse") and e[2] and e[2][0])
        started = False
        for e in st.events:
            if e[0] == "drain":
                started = True
            if started and e[0] == "store" and any(e[1] == c[0] for c in pcs):
                chk.ob(False, "C20/parser-state-written/%r" % (e[2],), "the tool overwrites the parser object while processing lines (store through %r): the handling of later lines then depends on this line" % (e[2],))
    chk.ob(True, sample={"parser_object": "only passed to AisParser::parse"})
    # ---- (b) one record per line on the right stream
    kinds = {}
    item_states = list(I.item_paths)
    for st in item_states:
        early = [e for e in st.events if e[0] == "loop_return"]
        chk.ob(not early, "C20/early-exit", "a path through the per-line code leaves main before the end of input")
    for st in item_states:
        rv = None
        items = [e for e in st.events if e[0] == "item"]
        outp = [e for e in st.events if e[0] == "output"]
        if not items:
            continue        # the path that ends the loop
        item = items[0][1]
        # what did the library call return on this path?
        lib = None
        for k, v in st.pc.opq.items():
            if k[0] == "res" and "AisParser::parse" in repr(k[1]):
                lib = "ok" if v else "err"
        variant = None
        for a, s_ in st.pc.sets.items():
            if a[0] == "disc" and "AisParser::parse" in repr(a[1]) and ".ok" in repr(a[1]):
                variant = s_
        if item == "io_error":
            kinds.setdefault("io_error", []).append(outp)
            continue
        if lib == "err":
            key = "err"
            want = ["stderr"]
        elif lib == "ok":
            frag = f.adts.get("ais::sentence::AisFragments")
            name = None
            if variant is not None and variant.is_single() and frag:
                name = frag["variants"][variant.single()]["name"]
            key = name or "ok?"
            want = ["stdout"] if name == "Complete" else []
        else:
            key = "?"
            want = None
        got = [o[1] for o in outp]
        kinds.setdefault(key, []).append(got)
        chk.ob(want is not None and got == want, "C20/records/%s/%r" % (key, got), "a line for which the parser returns %s writes %r; expected %r" % (key, got, want),
               sample={"parser_result": key, "records": got})
    chk.ob({"err", "Complete", "Incomplete"} <= set(kinds), "C20/records/coverage/%r" % (sorted(kinds),), "per-line outcomes analysed: %r" % (sorted(kinds),))
    # ---- (a) panic obligations of the binary's own code
    n = 0
    for site, o in sorted(I.obl.items(), key=lambda x: repr(x[0])):
        n += 1
        if not o.failures:
            chk.ob(True, sample={"site": o.loc, "kind": o.kind, "status": "cannot fail"})
            continue
        env_only = all("env:io_error" in str(fl[0]) for fl in o.failures)
        chk.ob(env_only, "C20/panic/%s/%s" % (o.kind.replace(" ", "_"), site[0]),
               "%s at %s (%s) can fail because of the content of a line: %s" % (o.kind, o.loc, site[0], o.failures[0][0]),
               sample={"site": o.loc, "kind": o.kind, "status": "fails only on an I/O error of standard input (environment)"})
    # unknown externals other than the library itself
    for k, uses in sorted(I.unknown_ext.items()):
        chk.ob(k.startswith("ais:") or k.startswith("ais::"), "C20/unknown-external/%s" % k, "call to %s has no contract (first use %s)" % (k, uses[0]))
    # ---- (e) the library entry point the tool calls must itself be total (same analysis as C01,
    #      std configuration): a panic inside AisParser::parse / unarmor / messages::parse kills the tool
    from . import c01
    lf = ctx.facts("std")
    inv = c01.reachable_state_invariant(ctx, "std", chk)
    nlib = 0
    for (root, LI, npaths) in c01.analyse("std", lf, inv):
        c01.finish_leaves(LI)
        for site, o in sorted(LI.obl.items(), key=lambda x: repr(x[0])):
            nlib += 1
            if o.failures:
                chk.ob(False, "C20/library-panic/%s/%s" % (o.kind.replace(" ", "_"), site[0]),
                       "the library call made for every line can panic: %s at %s (%s), reached from %s: %s" % (o.kind, o.loc, site[0], root, o.failures[0][0]))
        for k, uses in sorted(LI.unknown_ext.items()):
            chk.ob(False, "C20/library-unknown-external/%s" % k, "library call to %s has no contract" % k)
    chk.ob(nlib >= 200, "C20/library-floor/%d" % nlib, "library obligation sites examined: %d" % nlib, sample={"library_obligation_sites": nlib, "status": "all discharged"})
    # ---- (h) the records print the values as they are: every placeholder of the tool's format
    #      strings is the plain one (no precision / width / flags - `{:.6?}` would round every
    #      coordinate the tool reports).  The template is the byte string rustc hands to
    #      fmt::Arguments::new (encoding of the pinned nightly: 0 end, 1..=0x7f literal of that
    #      length, 0x80 + u16 long literal, 0xC0|options placeholder with option payloads).
    ntpl = 0
    for b in f.bodies.values():
        consts, refs = {}, {}
        for blk in b["blocks"]:
            for stt in blk["stmts"]:
                if "assign" not in stt or stt["assign"]["p"]:
                    continue
                rv = stt.get("rv", {})
                if "use" in rv and isinstance(rv["use"], dict) and "const" in rv["use"] and "bytes" in rv["use"]["const"]:
                    consts[stt["assign"]["l"]] = rv["use"]["const"]["bytes"]
                elif "ref" in rv:
                    refs[stt["assign"]["l"]] = rv["ref"]["l"]
                elif "use" in rv and isinstance(rv["use"], dict) and ("move" in rv["use"] or "copy" in rv["use"]):
                    src = rv["use"].get("move") or rv["use"].get("copy")
                    if not src["p"]:
                        refs[stt["assign"]["l"]] = src["l"]
        for blk in b["blocks"]:
            t = blk["term"]
            if "call" in t and t["call"]["def"].startswith("core::fmt::") and t["call"]["def"].endswith("::new") and len(t.get("args", [])) == 2:
                a0 = t["args"][0]
                l = (a0.get("move") or a0.get("copy") or {}).get("l")
                seen_l = set()
                while l is not None and l not in consts and l in refs and l not in seen_l:
                    seen_l.add(l)
                    l = refs[l]
                tpl = consts.get(l)
                if tpl is None:
                    continue
                ntpl += 1
                i, opts, okparse = 0, [], True
                while i < len(tpl):
                    c = tpl[i]
                    if c == 0:
                        break
                    if c < 0x80:
                        i += 1 + c
                    elif c == 0x80:
                        if i + 2 >= len(tpl):
                            okparse = False
                            break
                        i += 3 + tpl[i + 1] + 256 * tpl[i + 2]
                    elif c >= 0xC0:
                        o = c & 0x3F
                        opts.append(o)
                        i += 1 + (4 if o & 1 else 0) + (2 if o & 2 else 0) + (2 if o & 4 else 0) + (2 if o & 8 else 0)
                    else:
                        okparse = False
                        break
                chk.ob(okparse, "C20/format/unparsed/%s" % b["def"].rsplit("::", 1)[-1], "reason=unanalysable: format template in %s not understood: %r" % (b["def"], tpl))
                if okparse:
                    chk.ob(all(o == 0 for o in opts), "C20/format/options/%s/%r" % (b["def"].rsplit("::", 1)[-1], opts),
                           "a record written by the tool (%s) formats a value with precision / width / flags (placeholder options %r): the decoded values are no longer printed as they are" % (b["def"], opts),
                           sample={"format_template": b["def"].rsplit("::", 1)[-1], "placeholders": len(opts), "options": "none"})
    chk.ob(ntpl >= 2, "C20/format/floor/%d" % ntpl, "only %d format templates of the tool found" % ntpl)
    # ---- (g) what println!/eprintln! call back into: a derived Debug impl cannot panic; a
    #      hand-written Debug/Display impl of a library type is interpreted on an arbitrary value
    from .fmtimpls import analyse_manual_fmt
    nfmt, nman, findings = analyse_manual_fmt(lf)
    for (kind, tyname, trn, key, msg) in findings:
        chk.ob(False, "C20/manual-fmt/%s/%s/%s" % (kind, tyname, key),
               msg + " - the tool prints every decoded message and every error through these impls")
    if not findings:
        chk.ob(True, sample={"fmt_impls": nfmt, "hand_written": nman, "status": "no panic and no error of their own on any value"})
    chk.ob(nfmt >= 40, "C20/fmt-impls-floor/%d" % nfmt, "only %d formatting impls found in the library" % nfmt, sample={"fmt_impls": nfmt, "hand_written": nman})
    # ---- (f) the reassembly relation behind the records (std build, the one the tool is built with)
    from .c05 import compare
    compare(ctx, chk, "C20", "std", ctx.tier)
    chk.cov["obligation_sites"] = n + nlib
    chk.cov["paths"] = len(outs)
    chk.cov["trusted_base"] = ["rustc MIR", "std::io::BufRead::split yields every '\\n'-separated chunk once, in order, then None", "Iterator::for_each visits every item in order",
                               "println!/eprintln! fail only on an I/O error", "the library call itself is covered by C01"]
