"""C18 — std, alloc and no-allocator builds are observationally equivalent.

Every model extracted for the other properties is computed in all three configurations and
compared: the partition of messages::parse (guards and decoded terms), the reassembly cells of
AisParser::parse, the unarmor outcomes and the tables of every leaf decoder.  std and alloc must be
identical.  The no-alloc build may differ only where it returns Err because a capacity
transformer (heapless try_from / resize / extend_from_slice / push, the bounded local count)
failed beyond the documented capacity (384 payload bytes, 119 data bytes, 20 characters); a
capacity failure must always surface as Err (never a silently shorter value).
The locally re-implemented many_m_n / count are interpreted (not trusted) in the no-alloc build and
compared with nom's reference semantics through the list- and text-carrying layouts.
"""
from __future__ import annotations
from ..domains import IntSet, INF
from ..extract import Canon
from .. import armor
from .fsm import get_fsm
from .c05 import canon_cell
from .common import pointwise, flatten, unwrap_message, leaf_table

MAXN = (1 << 28) - 1


def subst_elem(t, pos, k, i):
    if isinstance(t, tuple):
        if t == ("elem", pos, k):
            return ("bits", pos + k * i, k)
        return tuple(subst_elem(x, pos, k, i) for x in t)
    return t


def eval_n(t, N):
    """value of a canonical length term at payload length N (None if not evaluable)"""
    if not isinstance(t, tuple) or not t:
        return None
    if t[0] == "const":
        return t[1]
    if t[0] == "len":
        return N
    if t[0] == "fdiv":
        v = eval_n(t[1], N)
        return None if v is None else v // t[2]
    if t[0] == "lin":
        tot = t[2]
        for a, k in t[1]:
            v = eval_n(a, N)
            if v is None:
                return None
            tot += k * v
        return tot
    return None


def strip(t, N=None):
    """drop capacity annotations and ownership flags so that Vec and heapless::Vec terms compare;
    with a concrete payload length N, symbolic element runs are expanded to lists"""
    if isinstance(t, tuple):
        if t and t[0] == "utf8" and len(t) == 2 and isinstance(t[1], tuple):
            src = t[1]
            if src and src[0] == "slice" and src[-1] == ("const", 0):
                return ("utf8", ("list", ()))
            if src and src[0] == "seq" and src[1] == ("empty",):
                return ("utf8", ("list", ()))
            if src and src[0] == "elems" and N is not None:
                _, pos, k, n, elem = src[:5]
                nv = eval_n(n, N)
                if nv is not None and nv <= 64:
                    return ("utf8", ("list", tuple(strip(subst_elem(elem, pos, k, i), N) for i in range(nv))))
        if t and t[0] == "loopsum":
            return ("loopsum",)
        if t and t[0] == "adt" and len(t) == 4 and t[1].endswith("::Error") and t[2] != "Checksum":
            return ("error", t[2])        # error values are compared by category only
        if t and t[0] == "list" and len(t) == 3:
            return ("list", strip(t[1], N))
        if t and t[0] == "seq" and len(t) == 3:
            return ("seq", strip(t[1], N))
        if t and t[0] == "elems" and len(t) == 6:
            return ("elems",) + tuple(strip(x, N) for x in t[1:5])
        if t and t[0] == "opaque":
            return ("opaque",)
        return tuple(strip(x, N) for x in t)
    return t


def _unused(t):
    if isinstance(t, tuple):
        if t and t[0] == "list" and len(t) == 3:
            return ("list", strip(t[1]))
        if t and t[0] == "seq" and len(t) == 3:
            return ("seq", strip(t[1]))
        if t and t[0] == "elems" and len(t) == 6:
            return ("elems",) + tuple(strip(x) for x in t[1:5])
        if t and t[0] == "opaque":
            return ("opaque",)
        return tuple(strip(x) for x in t)
    return t


def guard_key(o):
    g = {k: v for k, v in o.guard.items() if k not in (("len", "P"),)}
    # decisions of opaque string searches (`find`, `get`) distinguish outcomes just like value sets do
    oq = tuple(sorted((repr(k), v) for k, v in o.opq.items() if isinstance(k, tuple) and k and k[0] in ("find", "rfind", "str_get")))
    return tuple(sorted((repr(k), v.iv) for k, v in g.items())) + oq


def index(outs):
    d = {}
    for o in outs:
        d.setdefault(guard_key(o), []).append(o)
    return d


def cap_events(o):
    return [e for e in o.st.events if e[0] == "capacity_err"]


def compare_layouts(chk, a_name, A, b_name, B, allow_capacity):
    """every outcome of B must agree with the outcome(s) of A covering the same region"""
    ia = index(A)
    n = 0
    for o in B:
        gk = guard_key(o)
        cands = ia.get(gk, [])
        ns = o.nset()
        cover = IntSet.empty()
        for oa in cands:
            inter = oa.nset().intersect(ns)
            if inter.is_empty():
                continue
            cover = cover.union(inter)
            n += 1
            N = inter.min() if inter.is_single() else None
            same = (oa.ok == o.ok) and (not o.ok or strip(oa.term, N) == strip(o.term, N))
            if same:
                chk.ob(True)
                continue
            caps = cap_events(o)
            ts = sorted(o.tset().values())
            text_over = (not o.ok) and allow_capacity and ts and ts[0] in (12, 14) and (8 * inter.min() - (72 if ts[0] == 12 else 40)) // 6 > 20
            if allow_capacity and (not o.ok) and (caps or text_over):
                beyond = text_over or capacity_exceeded(ts, inter, caps)
                chk.ob(beyond, "C18/layout/capacity-too-early/%r/%s" % (ts, inter.min()),
                       "messages::parse type %r: %s rejects at %r bytes with a capacity error although the documented capacity is not exceeded" % (ts, b_name, inter),
                       sample={"types": ts, "bytes_from": inter.min(), "no_alloc": "Err (capacity)", "std": "Ok"})
                continue
            chk.ob(False, "C18/layout/%r/%s/%s-vs-%s" % (ts, inter.min(), "ok" if oa.ok else "err", "ok" if o.ok else "err"),
                   "messages::parse type %r at %r bytes: %s gives %s, %s gives %s" % (ts, inter, a_name, "Ok" if oa.ok else "Err", b_name, "Ok" if o.ok else "Err"),
                   {"a": repr(strip(oa.term))[:600], "b": repr(strip(o.term))[:600]})
        chk.ob(ns.subset_of(cover), "C18/layout/uncovered/%s/%r" % (b_name, sorted(o.tset().values())[:3]),
               "messages::parse: a partition of %s (types %r, %r bytes) has no counterpart in %s" % (b_name, sorted(o.tset().values())[:3], ns, a_name))
        if o.ok and cap_events(o):
            chk.ob(False, "C18/layout/silent-truncation/%r" % (sorted(o.tset().values()),), "%s: a capacity failure does not surface as an error (types %r)" % (b_name, sorted(o.tset().values())))
    return n


def capacity_exceeded(ts, nset, caps):
    t = ts[0] if ts else None
    hdr = {6: 11, 8: 7, 17: 15}.get(t)
    if hdr is not None:
        return nset.min() - hdr > 119
    return True


def run(ctx, chk):
    # both = std and alloc together: must be exactly std (analysed only when its MIR differs from std's)
    both = ctx.both_differs()
    cfgs = ["std", "alloc", "none"] + (["both"] if both else [])
    chk.note("std+alloc: %s" % ("MIR differs from std, compared in full" if both else "MIR identical to std"))
    ctx.prefetch(cfgs)
    # ---- (1) message layouts
    L = {c: ctx.layouts(c)[1] for c in cfgs}
    n1 = compare_layouts(chk, "std", L["std"], "alloc", L["alloc"], False)
    n1 += compare_layouts(chk, "alloc", L["alloc"], "std", L["std"], False)
    if both:
        n1 += compare_layouts(chk, "std", L["std"], "both", L["both"], False)
        n1 += compare_layouts(chk, "both", L["both"], "std", L["std"], False)
    n2 = compare_layouts(chk, "std", L["std"], "none", L["none"], True)
    # every std region must be covered by no-alloc outcomes as well
    ib = index(L["none"])
    for o in L["std"]:
        cover = IntSet.empty()
        for ob in ib.get(guard_key(o), []):
            cover = cover.union(ob.nset())
        chk.ob(o.nset().subset_of(cover), "C18/layout/none-missing/%r/%s" % (sorted(o.tset().values())[:3], o.nset().minus(cover)),
               "messages::parse types %r at %r bytes: no outcome in the no-alloc build (a panic or an unanalysed path)" % (sorted(o.tset().values())[:3], o.nset().minus(cover)))
    chk.cov["layout_pairs_compared"] = n1 + n2
    # ---- (2) reassembly cells
    cells = {}
    for c in cfgs:
        fsm = get_fsm(ctx, c)
        sig = {}
        for cell in fsm.cells:
            cc = canon_cell(cell)
            if cc[8]:
                # capacity cell (no-alloc only): must be an error
                chk.ob(cell.result.startswith("err"), "C18/fsm/silent-truncation/%s" % cell.result, "%s: reassembly buffer overflow yields %s" % (c, cell.result),
                       sample={"config": c, "reassembly_overflow": cell.result})
                # ... and must leave the group as it was: otherwise the following fragments are
                # accepted and a message with a hole (a silently truncated payload) is delivered
                if cell.capacity[0][0] == "size_limit":
                    # an explicit limit must be the no-alloc buffer's capacity, or the builds disagree on acceptance
                    chk.ob(cell.capacity[0][1] == 384, "C18/fsm/size-limit/%s/%s" % (c, cell.capacity[0][1]),
                           "%s: reassembled payloads above %s bytes are rejected; the no-alloc capacity is 384" % (c, cell.capacity[0][1]))
                same = cell.post_sid == "sid" and cell.post_s == "s" and cell.post_D == "D" and not cell.stores
                chk.ob(same, "C18/fsm/capacity-state/%s,%s,%s/%d" % (cell.post_sid, cell.post_s, cell.post_D, len(cell.stores)),
                       "%s: after a reassembly buffer overflow the parser state is (%s, %s, %s): the rest of the group will be accepted and delivered without the rejected fragment" % (c, cell.post_sid, cell.post_s, cell.post_D))
                continue
            key = (cell.atoms["idv"] is not None, cc[:8] + (cc[9],))
            sig.setdefault(repr(key), 0)
        cells[c] = set(sig)
    chk.ob(cells["std"] == cells["alloc"], "C18/fsm/std-vs-alloc/%d" % len(cells["std"] ^ cells["alloc"]), "reassembly relation differs between std and alloc: %r" % (sorted(cells["std"] ^ cells["alloc"])[:2],))
    chk.ob(not both or cells["std"] == cells["both"], "C18/fsm/std-vs-both/%d" % len(cells["std"] ^ cells.get("both", cells["std"])), "reassembly relation differs between std and std+alloc: %r" % (sorted(cells["std"] ^ cells.get("both", cells["std"]))[:2],))
    # in the no-alloc build the accepting cells carry an extra 'fits the buffer' conjunct: compare modulo facts on lengths
    chk.ob(cells["std"] <= cells["none"] or cells["std"] == cells["none"] or len(cells["std"] - cells["none"]) == 0,
           "C18/fsm/std-vs-none/%d" % len(cells["std"] - cells["none"]), "reassembly relation of std has cells the no-alloc build lacks: %r" % (sorted(cells["std"] - cells["none"])[:2],),
           sample={"reassembly_cells": {c: len(cells[c]) for c in cfgs}})
    # ---- (3) unarmor outcomes
    U = {}
    for c in cfgs:
        I, outs = armor.run_unarmor(ctx.facts(c))
        C = Canon(I.f)
        summ = set()
        for (st, rv) in outs:
            caps = [e for e in st.events if e[0] == "capacity_err"]
            if caps:
                chk.ob(getattr(rv, "variant", 0) == 1, "C18/unarmor/silent-truncation", "%s: unarmor output too large for the buffer but no error" % c)
                nb = st.lin_range(st.norm(__import__("aislint.domains", fromlist=["Lin"]).Lin.atom(("len", armor.ABUF))))
                chk.ob(c == "none" and nb.min() * 6 > 384 * 8, "C18/unarmor/capacity-too-early/%s" % nb.min(), "%s: unarmor rejects %r armored bytes for capacity, 384 output bytes hold 512" % (c, nb),
                       sample={"config": c, "unarmor_capacity_error_from_chars": nb.min()})
                continue
            g, fa, opq = C.guard(st)
            # (the range of the length quotient differs by the 384-byte capacity; compare the rest)
            summ.add(repr((sorted((repr(k), v.iv) for k, v in g.items() if k == ("sym", "fill")), strip(C.val(st, rv)))))
        U[c] = summ
    chk.ob(U["std"] == U["alloc"], "C18/unarmor/std-vs-alloc", "unarmor differs between std and alloc")
    chk.ob(not both or U["std"] == U["both"], "C18/unarmor/std-vs-both", "unarmor differs between std and std+alloc")
    chk.ob(len(U["std"] - U["none"]) == 0 or all("quot" in x for x in U["std"] ^ U["none"]), "C18/unarmor/std-vs-none/%d" % len(U["std"] - U["none"]),
           "unarmor outcomes of std missing from the no-alloc build: %r" % (sorted(U["std"] - U["none"])[:1],), sample={"unarmor_outcomes": {c: len(U[c]) for c in cfgs}})
    # ---- (4) leaf decoder tables
    T = {}
    PW = {}
    for c in cfgs:
        I = ctx.layouts(c)[0]
        C = Canon(I.f)
        tabs = {}
        for d, calls in I.leaf_calls.items():
            b = I.f.bodies[d]
            sets = []
            ok = True
            for a in calls[0][0]:
                s_ = I.arg_set(calls[0][1], a)
                if s_ is None:
                    ok = False
                sets.append(s_)
            if not ok:
                continue
            # full-width argument ranges so that the table does not depend on the call site
            full = []
            for a in calls[0][0]:
                from ..values import VInt, VBool
                if isinstance(a, VInt):
                    from ..interp import ty_range
                    full.append(ty_range(a.w, a.s))
                else:
                    full.append(IntSet.range(0, 1))
            try:
                rows = leaf_table(I, C, d, [f if f.size() <= (1 << 16) else s for f, s in zip(full, sets)])
            except Exception as e:
                rows = None
            if rows is not None:
                tabs[d.replace(I.f.crate + "::", "")] = sorted(repr((tuple(x.iv if x is not None else None for x in sets_), strip(term))) for (sets_, term, s2, rv) in rows)
                pw = pointwise([(sets_, strip(term), s2, rv) for (sets_, term, s2, rv) in rows])
                if pw is not None:
                    PW.setdefault(c, {})[d.replace(I.f.crate + "::", "")] = pw
        T[c] = tabs
    for name in sorted(set(T["std"]) | set(T["none"]) | set(T["alloc"]) | set(T.get("both", {}))):
        a, b, n, ab = T["std"].get(name), T["alloc"].get(name), T["none"].get(name), T.get("both", T["std"]).get(name)
        def same(x, y, cx, cy):
            if x is None or y is None:
                # a helper that exists (under this definition path) in one configuration only, e.g. a
                # cfg-specific error constructor: nothing to compare by name - its effect is compared
                # through the outcomes of its callers
                return True
            if x == y:
                return True
            # the same function written differently (ranges vs lookup table): compare value by value
            px, py = PW.get(cx, {}).get(name), PW.get(cy, {}).get(name)
            return px is not None and px == py
        chk.ob(same(a, b, "std", "alloc"), "C18/leaf/std-vs-alloc/%s" % name, "decoder %s has different tables in std and alloc" % name)
        chk.ob(same(a, ab, "std", "both"), "C18/leaf/std-vs-both/%s" % name, "decoder %s has different tables in std and std+alloc" % name)
        chk.ob(same(a, n, "std", "none"), "C18/leaf/std-vs-none/%s" % name, "decoder %s has different tables in std and no-alloc: %r vs %r" % (name, (a or [])[:2], (n or [])[:2]),
               sample={"leaf": name, "rows": len(a or [])})
    chk.cov["leaf_tables_compared"] = len(T["std"])
    # ---- (4b) accessors of decoded values that no decoder calls (the rate of turn is visible only
    #      through them): the same summary in every configuration
    from .common import rot_accessor_summary
    for meth in ("rate", "direction"):
        summ = {}
        for c in cfgs:
            try:
                r = rot_accessor_summary(ctx.facts(c), meth)
            except Exception as e:
                r = "unanalysable: %r" % (e,)
            summ[c] = sorted((vals.iv, repr(rv)) for vals, rv in r) if isinstance(r, list) else r
        for c in cfgs[1:]:
            chk.ob(summ[c] == summ["std"], "C18/accessor/%s/std-vs-%s" % (meth, c), "RateOfTurn::%s differs between std and %s: %r vs %r" % (meth, c, str(summ["std"])[:200], str(summ[c])[:200]),
                   sample={"accessor": "RateOfTurn::" + meth, "paths": len(summ["std"]) if isinstance(summ["std"], list) else 0})
    # ---- (5) the local copies of many_m_n / count against nom's semantics (scripted element parser)
    nscripts = check_local_combinators(ctx, chk, 5 if ctx.tier == "thorough" else 4)
    chk.cov["local_combinator_scripts"] = nscripts
    chk.cov["configs"] = cfgs
    chk.cov["programs"] = 4
    chk.cov["trusted_base"] = ["rustc MIR of the four feature combinations", "nom / heapless / alloc contracts in xform.py"]
    chk.ob(n1 + n2 >= 300 and len(T["std"]) >= 25, "C18/floor/%d/%d" % (n1 + n2, len(T["std"])), "too little compared: %d layout pairs, %d leaf tables" % (n1 + n2, len(T["std"])))


# ------------------------------------------------------------------------------------------------
# the locally re-implemented nom combinators against nom's reference semantics, with an abstract
# element parser whose outcome at each application is scripted

def _scripted_env(facts):
    from ..interp import Interp, St, Lin
    from ..values import VParser, VRef, VTuple, VSlice, VInt
    from .. import xform
    I = Interp(facts, xform.EXT, inline_leaves=True)
    st = St()
    return I, st


def _install_scripted():
    from .. import xform
    from ..values import VTuple, VSlice, VInt
    from ..interp import Lin, mk_const
    if "scripted" in xform.PARSERS:
        return

    def p_scripted(I, st, pv, inp, ctx):
        script, cref = pv.args
        i = I.read_ref(st, cref)
        idx = i.lin.c
        I.write_loc(st, cref.cell, cref.path, mk_const(idx + 1, 64, False))
        act = script[idx] if idx < len(script) else "E"
        sl, off = inp.items
        if act == "c":
            rest = VTuple((VSlice(sl.buf, sl.start + 1, sl.len - 1), off))
            return [(st, xform.ok_pair(rest, mk_const(100 + idx, 32, False)))]
        if act == "n":
            return [(st, xform.ok_pair(inp, mk_const(100 + idx, 32, False)))]
        if act == "E":
            return [(st, xform.nom_err(I, "Error"))]
        return [(st, xform.nom_err(I, "Failure"))]
    xform.PARSERS["scripted"] = p_scripted


def _sig(I, st, r):
    from ..values import VAdt, VList
    from .. import xform
    if xform.is_ok(r):
        rest, v = r.fields[0].items
        items = tuple(x.lin.c for x in v.items) if isinstance(v, VList) else ("?", repr(v))
        return ("ok", items, rest.items[0].start.c)
    return ("err", xform.err_kind(I, r))


def check_local_combinators(ctx, chk, maxlen):
    import itertools
    from ..interp import Interp, St, Lin, mk_const
    from ..values import VParser, VRef, VTuple, VSlice, VClosure
    from .. import xform
    _install_scripted()
    facts = ctx.facts("none")
    crate = facts.crate
    bm = facts.bodies.get(crate + "::messages::nom_noalloc::many_m_n")
    bc = facts.bodies.get(crate + "::messages::nom_noalloc::count")
    locals_found = [b for b in (bm, bc) if b is not None]
    if not locals_found:
        # nothing re-implemented locally (anymore): nothing to compare
        chk.note("no local many_m_n/count found in the no-alloc build")
        return 0
    dummy = {"body": {"def": "<c18>", "locals": [0]}, "bb": 0, "term": {"dest": {"l": 0, "p": []}, "loc": "", "macros": [], "target": 0}, "frame": [], "results": []}
    n = 0

    def fresh(script):
        I = Interp(facts, xform.EXT, inline_leaves=True)
        st = St()
        c = I.new_cell(st, mk_const(0, 64, False))
        p = VParser("scripted", (script, VRef(c, (), True)), {"site": ("<c18>", 0), "loc": "", "generics": None})
        pc = I.new_cell(st, p)
        inp = VTuple((VSlice("X", Lin.const(0), Lin.const(64)), mk_const(0, 64, False)))
        return I, st, p, VRef(pc, (), True), inp
    for L in range(0, maxlen + 1):
        for script in itertools.product("cnEF", repeat=L):
            if bm is not None:
                for (mn, MAX) in ((1, 4), (0, 4), (2, 3)):
                    I, st, p, pref, inp = fresh(script)
                    genv = {"I": {"ty": 0}, "O": {"ty": 0}, "E": {"ty": 0}, "F": {"ty": 0}, "MAX": {"const": MAX}}
                    outs = I.exec_fn(st, bm, [mk_const(mn, 64, False), p], genv)
                    got = []
                    for (s2, clo) in outs:
                        for (s3, r) in I.apply_callable(s2, clo, [inp], dummy):
                            got.append(_sig(I, s3, r))
                    I2, st2, p2, pref2, inp2 = fresh(script)
                    want = [_sig(I2, s3, r) for (s3, r) in xform.do_many_m_n(I2, st2, mk_const(mn, 64, False), mk_const(MAX, 64, False), pref2, inp2, dummy)]
                    n += 1
                    chk.ob(got == want, "C18/local-many_m_n/min%d,max%d/%s/%r" % (mn, MAX, "".join(script), got[:1]),
                           "local many_m_n(min=%d, MAX=%d) with element outcomes %r gives %r, nom's many_m_n gives %r" % (mn, MAX, "".join(script), got, want),
                           sample={"combinator": "many_m_n", "min": mn, "max": MAX, "script": "".join(script), "outcome": repr(want)})
            if bc is not None and "n" not in script:
                for (cnt, CAP) in ((L, 4), (max(L - 1, 0), 4), (2, 1)):
                    I, st, p, pref, inp = fresh(script)
                    genv = {"I": {"ty": 0}, "O": {"ty": 0}, "E": {"ty": 0}, "F": {"ty": 0}, "VEC_SIZE": {"const": CAP}}
                    outs = I.exec_fn(st, bc, [p, mk_const(cnt, 64, False)], genv)
                    got = []
                    for (s2, clo) in outs:
                        for (s3, r) in I.apply_callable(s2, clo, [inp], dummy):
                            got.append(_sig(I, s3, r))
                    fails = [o for o in I.obl.values() if o.failures]
                    I2, st2, p2, pref2, inp2 = fresh(script)
                    if cnt > CAP:
                        want = [("err", "Failure")]         # documented capacity difference: an error, never a panic
                    else:
                        want = [_sig(I2, s3, r) for (s3, r) in xform.do_count(I2, st2, pref2, mk_const(cnt, 64, False), inp2, dummy)]
                    n += 1
                    chk.ob(got == want and not fails, "C18/local-count/n%d,cap%d/%s/%r" % (cnt, CAP, "".join(script), (got[:1], [o.kind for o in fails][:1])),
                           "local count(n=%d, VEC_SIZE=%d) with element outcomes %r gives %r (panic sites: %r), nom's count gives %r" % (cnt, CAP, "".join(script), got, [o.kind for o in fails], want))
    return n
