"""Shared sentence-layer model: paths of AisParser::parse classified by what happened."""
from __future__ import annotations
from ..domains import IntSet, Lin
from ..values import *
from ..interp import VApp, RESULT, OPTION, Unanalysable, lin_of
from ..extract import Canon
from .. import sentence, grammar


class SentModel:
    def __init__(self, facts, decode=None):
        self.f = facts
        self.I, self.cell, self.outs = sentence.run_parser(facts, decode)
        self.C = Canon(facts)
        self.checksum_leaf = self.find_checksum_leaf()
        self.paths = [Path(self, st, rv) for (st, rv) in self.outs]

    def find_checksum_leaf(self):
        """the unique local leaf that constructs the checksum error variant"""
        cands = []
        for d in self.I.leaf_calls:
            b = self.f.bodies[d]
            for blk in b["blocks"]:
                for s in blk["stmts"]:
                    rv = s.get("rv", {})
                    k = rv.get("agg")
                    if isinstance(k, dict) and k.get("vname") == "Checksum" and k.get("name", "").endswith("Error"):
                        cands.append(d)
        cands = sorted(set(cands))
        if len(cands) != 1:
            raise Unanalysable("cannot identify the checksum function (candidates: %r)" % (cands,))
        return cands[0]


class Path:
    def __init__(self, m, st, rv):
        self.m, self.st, self.rv = m, st, rv
        self.post = st.store[m.cell]
        self.events = st.events
        self.leaf_events = [e for e in st.events if e[0] == "leaf"]
        self.checksum_calls = [e for e in self.leaf_events if e[1] == m.checksum_leaf]
        self.grammar_ok = bool(self.checksum_calls)
        self.writes = [e for e in st.events if e[0] == "write"]
        self.calls = [e for e in st.events if e[0] == "call"]
        self.kind = self.classify()

    def classify(self):
        rv = self.rv
        if isinstance(rv, VAdt) and rv.adt == RESULT:
            if rv.variant == 0:
                inner = rv.fields[0]
                if isinstance(inner, VAdt):
                    vn = self.m.C.variant_name(inner.adt, inner.variant)
                    return "ok:" + vn
                return "ok:?"
            e = rv.fields[0]
            if not self.grammar_ok:
                # before the checksum comparison only the sentence grammar may reject (its nom
                # error is formatted into the message); an error raised by the crate's own code
                # with a message of its own (sequencing, limits) is a rejection of a line that
                # passed the grammar
                convs = [ev[1] for ev in self.events if ev[0] == "from_impl"]
                if convs and "nom::Err" not in str(convs[-1]):
                    return "err:early"
                return "err:form"
            if isinstance(e, VApp) and e.defn == self.m.checksum_leaf:
                return "err:checksum"
            if isinstance(e, VOpaque) and e.tag.startswith("ext:") is False and "stub:" in e.tag:
                return "err:decode"
            if any(ev[0] == "capacity_err" for ev in self.events):
                return "err:capacity"
            return "err:other"
        return "?"

    def sentence(self):
        """the AisSentence value carried by an Ok result"""
        rv = self.rv
        if isinstance(rv, VAdt) and rv.variant == 0:
            inner = rv.fields[0]
            if isinstance(inner, VAdt) and inner.fields:
                return inner.fields[0]
        return None
