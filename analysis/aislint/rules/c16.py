"""C16 — communication state is decoded per SOTDMA/ITDMA rules for each type.

Rule: in every Ok partition of types 1, 2, 3, 4, 9, 11, 18 the radio_status sub-structure is
compared with ITU-R M.1371-5 3.3.7.2/3.3.7.3: scheme by type (SOTDMA 1,2,4,11; ITDMA 3; selector
bit 148 for 9 and 18), state in bits 149..167, SOTDMA = sync:2 timeout:3 sub:14 with the
sub-message chosen by the time-out value, ITDMA = sync:2 increment:13 slots:3 keep:1.
"""
from __future__ import annotations
from ..domains import IntSet
from ..spec import itu
from .common import check_derived_impls, flatten, unwrap_message, strip_wrappers, inline_flag

B = itu.COMM_STATE_OFFSET


def core_of(t):
    c, ws = strip_wrappers(t)
    return c


def run(ctx, chk):
    cfgs = ctx.configs()
    ctx.prefetch(cfgs)
    n = 0
    for cfg in cfgs:
        I, outs = ctx.layouts(cfg)
        seen = {}
        tcov = {}
        for o in outs:
            if not o.ok:
                continue
            ts = set(o.tset().values())
            if not ts & set(itu.COMM_SCHEME):
                continue
            variant, struct, sterm = unwrap_message(o.term)
            flat = flatten(sterm)
            rs = {p[len("radio_status"):]: t for p, t in flat.items() if p.startswith("radio_status")}
            scheme_got = "sotdma" if any(k.startswith("#Sotdma") for k in rs) else ("itdma" if any(k.startswith("#Itdma") for k in rs) else None)
            mism = []
            for t in sorted(ts):
                want = itu.COMM_SCHEME.get(t)
                if want is None:
                    continue        # not one of the types C16 speaks about (C09 decides whether it may decode at all)
                if want == "sel":
                    g = o.guard.get(("bits", 148, 1))
                    if g is None or not g.is_single():
                        mism.append("selector=unread")
                        want_s = scheme_got
                    else:
                        want_s = "sotdma" if g.single() == 0 else "itdma"
                else:
                    want_s = want
                if scheme_got != want_s:
                    mism.append("scheme=%s(want %s)" % (scheme_got, want_s))
                seen.setdefault(t, set()).add(scheme_got)
            # where does the decoded state start?  (sync_state is its first field)
            BB = B
            pre0 = "#Sotdma.0." if scheme_got == "sotdma" else "#Itdma.0."
            sync = core_of(rs.get(pre0 + "sync_state", ("missing",)))
            if sync[0] == "bits" and sync[1] != B:
                mism.append("state-base=%s(want %d)" % (sync[1], B))
                BB = sync[1] if isinstance(sync[1], int) else B
            if scheme_got == "sotdma":
                pre = "#Sotdma.0."
                for f, (off, w) in (("sync_state", itu.SOTDMA["sync_state"]), ("slot_timeout", itu.SOTDMA["slot_timeout"])):
                    got = core_of(rs.get(pre + f, ("missing",)))
                    if got != ("bits", BB + off, w):
                        mism.append("%s=%s(want bits %d+%d)" % (f, got[1:] if got[0] == "bits" else got, BB + off, w))
                subs = [k for k in rs if k.startswith(pre + "sub_message#")]
                variants = set(k[len(pre + "sub_message#"):].split(".")[0] for k in subs)
                tg = None
                for k, v in o.guard.items():
                    if k[0] == "bits" and k[2] == 3 and core_of(rs.get(pre + "slot_timeout", ("x",))) == k:
                        tg = v
                if tg is None:
                    mism.append("timeout-guard=missing")
                else:
                    for t in ts:
                        tcov[t] = tcov.get(t, IntSet.empty()).union(tg)
                    for tv in tg.values():
                        wv = itu.SOTDMA_SUB[tv]
                        if variants != {wv}:
                            mism.append("timeout%d->%s(want %s)" % (tv, sorted(variants), wv))
                soff, sw = itu.SOTDMA["sub_message"]
                sb = BB + soff
                for k in subs:
                    v, _, idx = k[len(pre + "sub_message#"):].partition(".")
                    got = core_of(rs[k])
                    if v == "UtcHourAndMinute":
                        if idx == "0":
                            ok = got == ("bits", sb, 5)
                        else:
                            # ITU: minute in sub[8:2] (7 bits); the crate reads sub[7:2] after one
                            # spare bit. Equal for every valid minute 0..59 - both accepted.
                            ok = got in (("bits", sb + 6, 6), ("bits", sb + 5, 7))
                    else:
                        ok = got == ("bits", sb, sw)
                    if not ok:
                        mism.append("%s.%s=%s" % (v, idx, got[1:] if got[0] == "bits" else got))
            elif scheme_got == "itdma":
                pre = "#Itdma.0."
                for f, (off, w) in itu.ITDMA.items():
                    raw = rs.get(pre + f, ("missing",))
                    got = core_of(raw)
                    fl = inline_flag(raw) if f == "keep" else None
                    if fl is not None:
                        # the keep flag computed in place (`bits == 1`, nom's bits::complete::bool)
                        if fl[0] != ("bits", BB + off, w):
                            mism.append("%s=%s(want bits %d+%d)" % (f, fl[0][1:], BB + off, w))
                        elif fl[1] != {0: False, 1: True}:
                            mism.append("%s=inverted" % f)
                        continue
                    if got != ("bits", BB + off, w):
                        mism.append("%s=%s(want bits %d+%d)" % (f, got[1:] if got[0] == "bits" else got, BB + off, w))
            else:
                mism.append("no-radio-status")
            # the state occupies 19 bits: the reads of the state parser must end 19 bits after its
            # first field (a sub-message that leaves its two spare bits unread decodes the same
            # fields and hands a wrong position to whoever continues after the state)
            reads = [(e[2], e[3]) for e in getattr(o, "reads", []) if e[0] == "take" and isinstance(e[2], int) and isinstance(e[3], int) and e[3] > 0]
            if reads and isinstance(BB, int) and scheme_got in ("sotdma", "itdma"):
                end = max(p + w_ for p, w_ in reads)
                chk.ob(end == BB + 19, "C16/%s/consumed=%d(want %d)" % (struct, end - BB, 19),
                       "%s [%s] communication state: the state parser consumes %d bits from its first field, the state is 19 bits long" % (struct, cfg, end - BB))
            n += 1
            if mism:
                key = "C16/%s/%s" % (struct, ";".join(sorted(set(mism))))
                chk.ob(False, key, "%s [%s] communication state: %s" % (struct, cfg, "; ".join(sorted(set(mism)))),
                       {"guard": {str(k): repr(v) for k, v in o.guard.items()}})
            else:
                chk.ob(True, sample={"struct": struct, "types": sorted(ts), "scheme": scheme_got, "state_bits": [B, B + 18]})
        for t, cov in sorted(tcov.items()):
            chk.ob(cov == IntSet.range(0, 7), "C16/timeouts/%d/%s" % (t, cov), "type %d [%s]: SOTDMA states decode only for slot time-out values %r (the others fail or panic)" % (t, cfg, cov))
        for t, want in itu.COMM_SCHEME.items():
            ws = {"sotdma"} if want == "sotdma" else ({"itdma"} if want == "itdma" else {"sotdma", "itdma"})
            got = seen.get(t, set())
            if t == 9 and got == {"sotdma"}:
                continue      # reported above (selector unread)
            chk.ob(got == ws, "C16/coverage/%d/%s" % (t, sorted(map(str, got))), "type %d [%s]: access schemes decoded: %s, expected %s" % (t, cfg, sorted(map(str, got)), sorted(ws)))
    check_derived_impls(ctx, chk, "C16", cfgs, lambda short, full: full.startswith("messages::radio_status::"), 8, "that the reported communication state is the transmitted one")
    chk.cov["configs"] = cfgs
    chk.cov["programs"] = len(cfgs)
    chk.cov["partitions"] = n
    chk.cov["trusted_base"] = ["rustc MIR", "nom take contract", "communication-state tables in spec/itu.py"]
    chk.ob(n >= 40, "C16/floor/%d" % n, "only %d partitions with a communication state reached" % n)
