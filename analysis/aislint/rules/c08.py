"""C08 — exactly the well-formed AIVDM/AIVDO sentence shapes are accepted.

Rule: every path of AisParser::parse that gets past the sentence grammar (i.e. reaches the
checksum comparison) contributes the regular language of the byte-level parsers it applied, with
their numeric side conditions (decimal value <= 255, fill < 6, hex value <= 0xFF read from at most
8 digits) and the length bounds the path condition puts on each element (non-empty payload; <= 384
bytes without an allocator).  The union of these languages, as a DFA, must equal the DFA of the
reference grammar of C08 - equivalence is decided by product construction and a disagreement is
reported with a shortest distinguishing line.  PEG-vs-regular: every optional/greedy element must
be followed by a byte class disjoint from its own first bytes (checked).
"""
from __future__ import annotations
from ..domains import IntSet
from ..automata import NFA, Frag, DFA, byte_classes, difference_witness, ALL, DIGITS, HEX
from ..interp import Unanalysable
from ..spec import sentence as spec
from .. import grammar
from .sent_common import SentModel


def first_bytes(el):
    k = el.kind
    if k == "tag":
        return {el.param[0]}
    if k in ("take", "anychar"):
        return set(ALL)
    if k == "take_until":
        return set(ALL)       # may be empty: caller looks further
    if k == "digit1":
        return set(DIGITS)
    if k == "hex_u32":
        return set(HEX)
    if k == "run" and el.param[1] > 0:
        return set(IntSet(el.param[0]).values())
    return set(ALL)


def run(ctx, chk):
    cfgs = ctx.configs()
    ctx.prefetch(cfgs)
    for cfg in cfgs:
        m = ctx.sentmodel(cfg)
        ok_paths = [p for p in m.paths if p.grammar_ok]
        chk.ob(len(ok_paths) >= 8, "C08/no-success-paths/%s/%d" % (cfg, len(ok_paths)), "only %d paths get past the sentence grammar [%s]" % (len(ok_paths), cfg))
        # acceptance must be a matter of the regular grammar alone: a path past the grammar that has
        # assumed "this part of the line is valid UTF-8" rejects the same shape with other bytes
        # (`map_res(take_until(","), from_utf8)` on a field whose bytes are otherwise free)
        dep = sorted(set(repr(k)[:120] for p in ok_paths for k, v in p.st.pc.opq.items() if isinstance(k, tuple) and k and k[0] == "utf8ok" and "'L'" in repr(k) and v is True))
        chk.ob(not dep, "C08/utf8-dependent/%d" % len(dep), "sentences are accepted [%s] only if a free field of the line is valid UTF-8 (%s): lines of the same shape with bytes >= 0x80 there are rejected" % (cfg, dep[:1]),
               sample={"acceptance_depends_on_utf8_validity": False})
        # distinct grammar shapes
        shapes = {}
        for p in ok_paths:
            chain, side, unresolved = grammar.analyse_path(p.st)
            sig = tuple(e.sig() for e in chain)
            if sig not in shapes:
                shapes[sig] = (chain, side, unresolved, p)
        a = NFA()
        f = Frag(a)
        frs = []
        for sig, (chain, side, unresolved, p) in shapes.items():
            # greedy elements: what follows must not start with a byte the element could still eat
            for i, el in enumerate(chain):
                nxt = chain[i + 1] if i + 1 < len(chain) else None
                if el.kind in ("digit1",) and nxt is not None:
                    chk.ob(not (first_bytes(nxt) & DIGITS), "C08/greedy/%s/%d" % (cfg, i), "digit run followed by an element that may start with a digit [%s]: %r then %r" % (cfg, el, nxt))
                if el.kind == "run" and nxt is not None:
                    # greedy run: exact as a regular expression only when what follows cannot start inside the class
                    chk.ob(not (first_bytes(nxt) & set(IntSet(el.param[0]).values())), "C08/greedy-run/%s/%d" % (cfg, i),
                           "reason=unanalysable: predicate-driven run followed by an element that may start with a byte of its class [%s]: %r then %r" % (cfg, el, nxt))
            try:
                frs.append(grammar.path_fragment(f, chain))
            except Unanalysable as u:
                chk.ob(False, "C08/unanalysable/%s" % u.what[:60], "reason=unanalysable: %s [%s]" % (u.what, cfg))
        if not frs:
            continue
        top = f.alt(*frs)
        ra, rs, rf = spec.reference_nfa(384 if cfg == "none" else None)
        classes = byte_classes(a, ra)
        d1 = DFA(a, top[0], {top[1]}, classes)
        d2 = DFA(ra, rs, rf, classes)
        w = difference_witness(d1, d2)
        if w is None:
            chk.ob(True, sample={"config": cfg, "grammar_shapes": len(shapes), "dfa_states_extracted": d1.n, "dfa_states_reference": d2.n, "byte_classes": len(classes)})
        else:
            line, acc_by_code = w
            chk.ob(False, "C08/language/%s/%s" % ("code-accepts" if acc_by_code else "code-rejects", line.hex()),
                   "sentence grammar [%s]: the line %r is %s by the code but %s by the specification of C08" % (
                       cfg, line, "accepted" if acc_by_code else "rejected", "rejected" if acc_by_code else "accepted"),
                   {"witness": repr(line)})
        chk.cov.setdefault("dfa", {})[cfg] = {"extracted_states": d1.n, "reference_states": d2.n, "classes": len(classes), "shapes": len(shapes)}
        # optional elements: the None alternative must be distinguishable by its first byte
        # (tag block: '\\' vs '!'/'$'; sequence id: digit vs ','): shapes differ exactly there
        sigs = list(shapes)
        chk.ob(len(sigs) >= 4, "C08/shapes/%s/%d" % (cfg, len(sigs)), "expected at least 4 grammar shapes (tag block x sequence id), found %d [%s]" % (len(sigs), cfg))
    chk.cov["configs"] = cfgs
    chk.cov["programs"] = len(cfgs)
    chk.cov["trusted_base"] = ["rustc MIR", "nom 7.1.3 tag/take/take_until/digit1/hex_u32/opt/alt/peek/verify/map_res contracts", "u8::from_str", "reference grammar spec/sentence.py"]
    chk.cov["exhaustive"] = True
