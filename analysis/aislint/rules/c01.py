"""C01 — parsing is total: no panic, abort, arithmetic overflow, out-of-bounds index or hang.

R1.1 panic obligations.  The three public entry points (AisParser::parse with an arbitrary parser
     state, line and decode flag; messages::unarmor with any slice and fill 0..5; messages::parse
     with any slice) are interpreted abstractly in every configuration.  Every MIR Assert
     (overflow, division by zero, bounds), every call into core::panicking (unreachable!, assert!,
     panic!), every unwrap/expect, every operator call that inherits an overflow check, and the
     documented panic conditions of nom::bits::take / nom::bits::bits / heapless is an obligation,
     evaluated in the abstract state of each partition that reaches it; leaf decoders are checked
     over the join of the argument ranges their call sites supply.
R1.2 termination.  The interpreter accepts only acyclic local calls and the three loop shapes of
     DESIGN 2.2; anything else is reported as unanalysable.
R1.3 no reachable abort/exit, no non-Rust ABI call.
R1.4 hand-written Debug/Display impls neither panic nor return an error of their own (format!,
     to_string and println! panic on such an error); see rules/fmtimpls.py.
R1.5 `From<..> for Error` impls (run by `?` on every rejected line) are total on arbitrary arguments.
Census: the obligation sites met must not fall below the floors counted by hand.
"""
from __future__ import annotations
from ..domains import IntSet
from ..interp import Interp, Unanalysable
from .. import armor, sentence, extract, xform


def finish_leaves(I):
    """evaluate the obligations inside leaf decoders at the argument ranges of their call sites"""
    done = set()
    n = 0
    for _ in range(4):
        todo = [(d, args, st) for d, lst in list(I.leaf_calls.items()) for (args, st) in lst]
        progressed = False
        for (d, args, st) in todo:
            sets = tuple(I.arg_set(st, a) for a in args)
            key = (d, tuple(None if s is None else (s.iv if isinstance(s, IntSet) else ("len", s[1].iv)) for s in sets))
            if key in done:
                continue
            done.add(key)
            progressed = True
            n += 1
            I.leaf_summary(d, list(sets))
        if not progressed:
            break
    return n


def reachable_state_invariant(ctx, cfg, chk):
    """see rules/c05.state_invariant: fragment_number <= 254 in every reachable state"""
    from .fsm import get_fsm
    from .c05 import state_invariant
    try:
        fsm = get_fsm(ctx, cfg)
    except Unanalysable:
        return None
    if not state_invariant(fsm):
        return None
    chk.note("%s: reachable-state invariant fragment_number <= 254 proved inductive on the extracted transition relation" % cfg)
    return {"fragment_number": IntSet.range(0, 254)}


def analyse(cfg, facts, inv=None):
    """-> list of (root name, Interp) after interpreting the three roots"""
    out = []
    I1, cell, outs = sentence.run_parser(facts, state_sets=inv)
    out.append(("AisParser::parse", I1, len(outs)))
    I2, outs2 = armor.run_unarmor(facts)
    out.append(("messages::unarmor", I2, len(outs2)))
    I3, outs3 = extract.extract_layouts(facts)
    out.append(("messages::parse", I3, len(outs3)))
    return out


FLOORS = {      # vacuity guard: obligation sites met per (config, root); about 3/4 of what the
    # current tree has (2 / 27 / 264-268), so that removing a few checked operations is not an alarm
    ("std", "AisParser::parse"): 1, ("std", "messages::unarmor"): 20, ("std", "messages::parse"): 200,
    ("alloc", "AisParser::parse"): 1, ("alloc", "messages::unarmor"): 20, ("alloc", "messages::parse"): 200,
    ("none", "AisParser::parse"): 1, ("none", "messages::unarmor"): 20, ("none", "messages::parse"): 200,
    ("both", "AisParser::parse"): 1, ("both", "messages::unarmor"): 20, ("both", "messages::parse"): 200,
}

PANIC_CALLEES = ("core::panicking::", "core::option::unwrap_failed", "core::result::unwrap_failed", "core::option::expect_failed")


def static_sites(facts, visited):
    """every Assert terminator and panic-family call in the visited local bodies"""
    out = {}
    for d in visited:
        b = facts.bodies.get(d)
        if not b:
            continue
        for bi, blk in enumerate(b["blocks"]):
            if blk["cleanup"]:
                continue
            t = blk["term"]
            if "assert" in t:
                out[(d, bi)] = (t["kind"], t["loc"])
            elif "call" in t and "def" in t["call"]:
                c = t["call"]
                dd = (c.get("resolved") or c)["def"]
                if dd.startswith(PANIC_CALLEES) or dd.rsplit("::", 1)[-1] in ("unwrap", "expect", "push_unchecked"):
                    out[(d, bi)] = ("call " + dd.rsplit("::", 1)[-1] + (" (" + ",".join(t["macros"][-1:]) + ")" if t.get("macros") else ""), t["loc"])
    return out


def run(ctx, chk):
    cfgs = ctx.configs()
    ctx.prefetch(cfgs)
    total_sites = 0
    for cfg in cfgs:
        facts = ctx.facts(cfg)
        inv = reachable_state_invariant(ctx, cfg, chk)
        # R1.4: formatting impls the crate's own format!/to_string calls (and every user's
        # println!) run: derived ones cannot panic; hand-written ones are interpreted on an
        # arbitrary value, and must neither panic nor return an error of their own making
        from .fmtimpls import analyse_manual_fmt
        nfmt, nman, findings = analyse_manual_fmt(facts)
        for (kind, tyname, trn, key, msg) in findings:
            chk.ob(False, "C01/manual-fmt/%s/%s/%s" % (kind, tyname, key), "[%s] %s" % (cfg, msg))
        if not findings:
            chk.ob(True, sample={"config": cfg, "fmt_impls": nfmt, "hand_written": nman, "status": "no panic, no error of their own"})
        # R1.5: conversions into the error type, run by `?` on every rejected line
        from .fmtimpls import analyse_error_conversions
        nconv, cfind = analyse_error_conversions(facts)
        for (kind, src, key, msg) in cfind:
            chk.ob(False, "C01/error-conversion/%s/%s/%s" % (kind, src, key), "[%s] %s" % (cfg, msg))
        if not cfind:
            chk.ob(True, sample={"config": cfg, "error_conversions": nconv, "status": "total on arbitrary arguments"})
        chk.ob(nconv >= 2, "C01/error-conversion/floor/%d" % nconv, "[%s] only %d conversions into the error type found" % (cfg, nconv))
        for (root, I, npaths) in analyse(cfg, facts, inv):
            nleaf = finish_leaves(I)
            sites = 0
            kinds = {}
            ordinals = {}
            for site, o in sorted(I.obl.items(), key=lambda x: (x[0][0], str(x[0][1]).zfill(8) if not isinstance(x[0][1], tuple) else "z" + str(x[0][1]))):
                kkey = (site[0], o.kind)
                ordinals[kkey] = ordinals.get(kkey, 0) + 1
                o.ordinal = ordinals[kkey]
            for site, o in sorted(I.obl.items(), key=lambda x: repr(x[0])):
                sites += 1
                kinds[o.kind.split("(")[0]] = kinds.get(o.kind.split("(")[0], 0) + 1
                where = "%s (%s, block %s)" % (o.loc, site[0], site[1])
                if o.failures:
                    detail, pc, stack = o.failures[0]
                    chk.ob(False, "C01/%s/%s/#%d" % (o.kind.replace(" ", "_"), site[0], o.ordinal),
                           "[%s, from %s] %s at %s may fail: %s" % (cfg, root, o.kind, where, detail),
                           {"path_condition": pc[:12], "call_stack": stack[-6:], "macros": o.macros})
                else:
                    chk.ob(True, sample={"config": cfg, "root": root, "site": o.loc, "kind": o.kind, "visits": o.visits})
            total_sites += sites
            # census: sites of the visited bodies that no feasible path reached = proved unreachable
            st_sites = static_sites(facts, I.visited_bodies)
            unreached = {k: v for k, v in st_sites.items() if k not in I.obl}
            chk.cov.setdefault("proved_unreachable", {})["%s/%s" % (cfg, root)] = len(unreached)
            for k, v in sorted(unreached.items())[:3]:
                chk.samples.append({"config": cfg, "root": root, "unreachable_site": v[1], "kind": v[0]})
            for k, uses in sorted(I.unknown_ext.items()):
                chk.ob(False, "C01/unknown-external/%s" % k, "[%s, from %s] call to %s has no contract (first use: %s): cannot exclude a panic" % (cfg, root, k, uses[0]))
            fl = FLOORS.get((cfg, root), 1)
            chk.ob(sites >= fl, "C01/census/%s/%s/%d" % (cfg, root, sites), "[%s, %s] only %d obligation sites were met (floor %d): the analysis lost its anchors" % (cfg, root, sites, fl))
            chk.note("%s %s: %d paths, %d obligation sites %r, %d leaf summaries, %d loops summarised" % (cfg, root, npaths, sites, kinds, nleaf, len(I.loops)))
            # R1.3: ABI
            for d in I.visited_bodies:
                b = facts.bodies.get(d)
                if not b:
                    continue
                for blk in b["blocks"]:
                    t = blk["term"]
                    if "call" in t and t["call"].get("abi") not in (None, "Rust", "RustCall", "RustIntrinsic", "Rust { .. }"):
                        chk.ob(False, "C01/abi/%s/%s" % (d, t["call"]["def"]), "[%s] %s calls %s with ABI %s" % (cfg, d, t["call"]["def"], t["call"].get("abi")))
    chk.cov["configs"] = cfgs
    chk.cov["obligation_sites"] = total_sites
    chk.cov["trusted_base"] = ["rustc MIR (dev profile: overflow and bounds checks are Assert terminators)", "contracts of nom 7.1.3 / heapless 0.7.17 / core in analysis/aislint/xform.py",
                               "allocation failure is outside the property"]
    chk.assumptions += ["every slice passed to the API is shorter than 2^28 bytes", "64-bit usize (the MIR analysed is the host's)"]
