"""C04 — every fixed-position field decodes to the transmitted value.

Rule: for every Ok partition of messages::parse (all length classes, all selector values, every
configuration), every public field of the result struct has as its only source the payload bits
[off, off+w) that ITU-R M.1371-5 assigns to it on that branch; plain integers are exactly those
bits, flags go through a leaf whose table is the boolean identity.  What the bits are turned into
by enumerations / sentinels / scales / text / comm state is decided by C10-C13, C15, C16.
"""
from __future__ import annotations
from ..domains import IntSet
from ..spec import itu
from .common import check_derived_impls, flatten, unwrap_message, sources, strip_wrappers, last, inline_flag


def infer_shape(struct, flat, outcome):
    sh = {}
    if struct in ("BinaryAcknowledge", "SafetyRelatedAcknowledge"):
        sh["acks"] = flat.get("acks.len", ("const", 0))[1]
    elif struct == "DataLinkManagementMessage":
        sh["reservations"] = flat.get("reservations.len", ("const", 0))[1]
    elif struct == "Interrogation":
        n = flat.get("stations.len", ("const", 0))[1]
        sh["stations"] = [flat.get("stations[%d].messages.len" % i, ("const", 0))[1] for i in range(n)]
    elif struct == "AssignmentModeCommand":
        sh["second"] = flat.get("mmsi2", ("none",))[0] == "some"
    elif struct == "StaticDataReport":
        parts = set(p.split("#", 1)[1].split(".")[0] for p in flat if "#" in p)
        sh["part"] = parts.pop() if len(parts) == 1 else None
    elif struct == "StaticAndVoyageRelatedData":
        d = flat.get("destination")
        n = text_chars(d)
        sh["dest_chars"] = n[1] if n else None
        sh["dte_present"] = bool(sources(flat.get("dte", ())))
    return sh


def text_chars(term):
    """('str', trims(utf8(list|elems))) -> (start_off, nchars, leaf, trims) or None"""
    if not term or term[0] != "str":
        return None
    t = term[1]
    trims = []
    while t[0] in ("trim_start", "trim_end", "trim", "trim_end_matches", "trim_start_matches", "trim_matches", "substr"):
        # (a sub-string is recorded like a trim: C13 compares the list with the specified clean-up)
        trims.append(t[0] if len(t) == 2 else ((t[0], t[2]) if t[0] != "substr" else ("substr", repr(t[2]), repr(t[3]))))
        t = t[1]
    if t[0] != "utf8":
        return None
    src = t[1]
    if src[0] == "slice" and src[3] == ("const", 0):
        return (None, 0, None, tuple(trims))
    if src[0] == "seq" and src[1] == ("empty",):
        return (None, 0, None, tuple(trims))
    if src[0] == "list":
        items = src[1]
        offs = []
        leaf = None
        for it in items:
            core, ws = strip_wrappers(it)
            if core[0] != "bits" or core[2] != 6:
                return None
            lf = tuple(w for w in ws)
            if leaf is None:
                leaf = lf
            elif leaf != lf:
                return None
            offs.append(core[1])
        if not offs:
            return (None, 0, leaf, tuple(trims))
        if any(offs[i] != offs[0] + 6 * i for i in range(len(offs))):
            return None
        return (offs[0], len(offs), leaf, tuple(trims))
    if src[0] == "elems":
        _, pos, k, n, elem = src
        core, ws = strip_wrappers(elem)
        if k != 6 or core != ("elem", pos, 6):
            return None
        return (pos, n, tuple(ws), tuple(trims))
    return None


def check_field(I, chk, cfg, struct, path, term, exp, outcome, flag_leaves):
    off, w, kind = exp
    key = "C04/%s/%s/%s" % (cfg if False else "any", struct, path)

    def bad(why):
        chk.ob(False, "%s/got=%s/want=%s" % (key, short(term), (off, w, kind)),
               "%s.%s [%s]: %s; extracted %s, ITU-R M.1371 places it at bits %s..%s (%s)" % (
                   struct, path, cfg, why, short(term), off, (off + w - 1) if isinstance(w, int) and off is not None else "?", kind),
               {"guard": {str(k): repr(v) for k, v in outcome.guard.items()}})
        return False
    k0 = kind.split(":")[0]
    if k0 == "raw":
        if term != ("bits", off, w):
            return bad("not the transmitted integer")
        return chk.ob(True, sample={"field": struct + "." + path, "bits": [off, w]})
    if k0 in ("absent",):
        if term != ("none",):
            return bad("must be absent on this branch")
        return chk.ob(True)
    if k0 == "default":
        if sources(term):
            return bad("must be the default value (no bits left to read)")
        return chk.ob(True)
    if k0 == "optsome":
        if term != ("some", ("bits", off, w)):
            return bad("not Some(transmitted integer)")
        return chk.ob(True)
    if kind == "opt:0|short":
        # interrogation slot offset: Some(bits) / None when the bits are zero or not present
        if term == ("some", ("bits", off, w)):
            return chk.ob(True)
        if term == ("none",):
            g = outcome.guard.get(("bits", off, w))
            n = outcome.nset()
            if (g is not None and g == IntSet.of(0)) or n.max() * 8 < off + w:
                return chk.ob(True)
            return bad("absent although the offset bits are present and not known to be zero")
        return bad("not the transmitted slot offset")
    if k0 == "text":
        tc = text_chars(term)
        if tc is None:
            return bad("not a 6-bit text decoding of consecutive bit groups")
        start, n, leaf, trims = tc
        if isinstance(w, int):
            if n == 0 and w == 0:
                return chk.ob(True)
            if start != off or n * 6 != w:
                return bad("text read from bits %s..+%s" % (start, n * 6 if isinstance(n, int) else n))
        else:
            if start != off:
                return bad("text read from bit %s" % (start,))
        return chk.ob(True, sample={"field": struct + "." + path, "text_from": start, "chars": str(n)})
    if k0 == "data":
        if term[0] != "seq" or term[1] != ("rest", off // 8):
            return bad("binary payload is not the bytes following the %d-bit header" % off)
        return chk.ob(True)
    if k0 == "comm":
        src = sources(term)
        if not src:
            return bad("communication state has no bit source")
        if not all(isinstance(s[1], int) and isinstance(s[2], int) for s in src):
            return bad("communication state read from a position that depends on the payload (%r)" % (src[:1],))
        lo = min(s[1] for s in src)
        hi = max(s[1] + s[2] for s in src)
        # exact sub-layout is C16's; here: inside the message and not overlapping other fields
        if lo < off - 1 or hi > off + w:
            return bad("communication state read from bits %d..%d" % (lo, hi - 1))
        # the slot parameters are plain transmitted integers (no sign extension, no arithmetic)
        if term[0] == "group":
            for (sp, st_) in term[1]:
                fname = sp.rsplit(".", 1)[-1]
                if fname in ("sync_state", "keep") or st_[0] == "unitvariant":
                    continue
                if st_[0] != "bits":
                    chk.ob(False, "%s%s/got=%s" % (key, sp.replace("radio_status", ""), short(st_)),
                           "%s.%s [%s]: slot parameter is not the transmitted unsigned integer: %s" % (struct, sp, cfg, short(st_)))
                    return False
        return chk.ob(True)
    # wrapped single-source fields: enum, opt, scaled, lon/lat, flag
    core, ws = strip_wrappers(term)
    signed = k0 in ("lon", "lat", "lon10", "lat10")
    want = ("sext" if signed else "bits", off, w)
    if k0 == "flag" and inline_flag(term) is not None:
        # the flag computed in the message parser itself (`bits == 1`, nom's bits::complete::bool)
        src, table = inline_flag(term)
        if src != want:
            return bad("wrong source bits")
        chk.ob(table == {0: False, 1: True}, "C04/flag-inline/%s.%s/%r" % (struct, path, table),
               "%s.%s [%s]: flag is not 0->false, 1->true: %r" % (struct, path, cfg, table))
        return chk.ob(True, sample={"field": struct + "." + path, "bits": [off, w], "via": ["inline comparison"]})
    if core != want:
        # sentinel branch of an inlined Option: ('none',) under a guard on the right bits
        if term == ("none",) and (("bits", off, w) in outcome.guard or ("sext", off, w) in outcome.guard):
            return chk.ob(True)
        # a value computed in the message parser itself from this field alone (`raw as f32 / 10.0`):
        # the position is right; the value is C10/C11's business
        ss = sources(term)
        if k0 not in ("enum", "flag") and ss and all(x == want for x in ss) and term[0] in ("float", "some"):
            return chk.ob(True, sample={"field": struct + "." + path, "bits": [off, w], "via": ["inline expression"]})
        return bad("wrong source bits" if core[0] in ("bits", "sext") else "not derived from a single bit field")
    extra = [s for s in sources(term) if s != want]
    if extra and not (struct == "LongRangeAisBroadcastMessage" and all(s == ("bits", 0, 6) for s in extra)):
        return bad("also depends on other bits %s" % (extra,))
    if k0 == "flag":
        leaves = [x for x in ws if isinstance(x, tuple)]
        if len(leaves) != 1:
            return bad("flag not decoded by a single bit->bool map")
        flag_leaves.add(leaves[0][1])
    return chk.ob(True, sample={"field": struct + "." + path, "bits": [off, w], "via": [x[1].split("::")[-1] if isinstance(x, tuple) else x for x in ws]})


def short(t):
    s = repr(t)
    return s if len(s) < 160 else s[:157] + "..."


def run(ctx, chk):
    cfgs = ctx.configs()
    ctx.prefetch(cfgs)
    seen_types = {}
    nfields = 0
    for cfg in cfgs:
        I, outs = ctx.layouts(cfg)
        flag_leaves = set()
        for o in outs:
            if not o.ok:
                continue
            variant, struct, sterm = unwrap_message(o.term)
            flat = flatten(sterm)
            shape = infer_shape(struct, flat, o)
            # which optional branch is present is itself part of "decodes to the transmitted value":
            # a transmitted second station / list element must not be dropped or invented
            from ..spec import lengths as _len
            ns = o.nset()
            for nb in (ns.min(), min(ns.max(), 10 ** 6)):
                if struct == "AssignmentModeCommand":
                    want2 = 8 * nb - 92 >= 52
                    chk.ob(shape["second"] == want2, "C04/branch/AssignmentModeCommand/second/%s/%s" % (nb if nb < 10 ** 6 else "large", shape["second"]),
                           "AssignmentModeCommand [%s] at %s bytes: second station %s although %s" % (cfg, nb, "reported" if shape["second"] else "absent", "its 52 bits are present" if want2 else "its 52 bits are not present"))
                for t_ in o.tset().values():
                    wc = _len.expected_count(t_, nb)
                    if wc is not None:
                        gotc = shape.get("acks", shape.get("reservations"))
                        chk.ob(gotc == wc, "C04/branch/%s/count/%s/%s" % (struct, nb if nb < 10 ** 6 else "large", gotc),
                               "%s [%s] at %s bytes: %s list elements reported, %s complete elements transmitted" % (struct, cfg, nb, gotc, wc))
            exp = itu.expected_fields(struct, shape)
            if exp is None:
                chk.ob(False, "C04/unknown-struct/%s" % struct, "no ITU layout for decoded struct %s" % struct)
                continue
            for t in o.tset().values():
                seen_types.setdefault(cfg, set()).add(t)
            fields = {p: t for p, t in flat.items() if not p.endswith(".len")}
            # composite kinds (communication state): one term for the whole sub-structure
            for p0, (_, _, kd) in list(exp.items()):
                if kd == "comm":
                    sub = {p: t for p, t in fields.items() if p == p0 or p.startswith(p0 + ".") or p.startswith(p0 + "#")}
                    for p in sub:
                        del fields[p]
                    if sub:
                        fields[p0] = ("group", tuple(sorted(sub.items())))
            for p in sorted(set(fields) | set(exp)):
                if p not in exp:
                    chk.ob(False, "C04/%s/%s/unexpected" % (struct, p), "%s.%s [%s]: field not in the ITU layout for this branch: %s" % (struct, p, cfg, short(fields[p])))
                elif p not in fields:
                    chk.ob(False, "C04/%s/%s/missing" % (struct, p), "%s.%s [%s]: expected on this branch, not produced" % (struct, p, cfg))
                else:
                    nfields += 1
                    check_field(I, chk, cfg, struct, p, fields[p], exp[p], o, flag_leaves)
        # flags: the leaf must be the boolean identity on {0,1}
        for leaf in sorted(flag_leaves):
            res, atoms = I.leaf_summary(leaf, [IntSet.range(0, 1)])
            table = {}
            for (s2, rv) in res:
                vals = s2.aset(atoms[0])
                c = getattr(rv, "cond", None)
                for v in vals.values():
                    if c is True or c is False or c is None:
                        table[v] = c
                    else:
                        # a symbolic condition (`data != 0`): decide it at this argument value
                        s3 = s2.copy()
                        s3.pc.sets[atoms[0]] = IntSet.of(v)
                        d = s3.decide(c)
                        table[v] = c if d is None else d
            chk.ob(table == {0: False, 1: True}, "C04/flag-leaf/%s/%r" % (leaf, table),
                   "flag decoder %s [%s] is not 0->false, 1->true: %r" % (leaf, cfg, table),
                   sample={"flag_leaf": leaf, "table": {str(k): v for k, v in table.items()}})
    want = set(itu.DISPATCH)
    for cfg in cfgs:
        got = seen_types.get(cfg, set())
        chk.ob(want <= got, "C04/coverage/%s/%s" % (cfg, sorted(want - got)),
               "no Ok partition extracted for message types %s in config %s" % (sorted(want - got), cfg))
    chk.cov["fields_compared"] = nfields
    check_derived_impls(ctx, chk, "C04", cfgs, lambda short, full: full.startswith("messages::"), 60, "that the decoded fields are the transmitted ones as a user compares or copies them")
    chk.cov["configs"] = cfgs
    chk.cov["programs"] = len(cfgs)
    chk.cov["trusted_base"] = ["rustc MIR (nightly ad3a598ca)", "nom 7.1.3 bits::complete::take / bits / count / many_m_n contracts", "ITU-R M.1371-5 tables in analysis/aislint/spec/itu.py"]
    chk.assumptions += ["nom::bits::complete::take returns bits MSB-first (contract)", "payload shorter than 2^28 bytes"]
    floor = 1500 if len(cfgs) == 2 else 2200
    chk.ob(nfields >= floor, "C04/floor/%d" % nfields, "only %d field comparisons were made (floor %d): the extractor lost its anchors" % (nfields, floor))
