"""C12 — enumerated codes map to the named values, injectively, unknowns preserved.

Rule: for every field the layout oracle marks as an enumeration, in every Ok partition of every
message type, the decoder applied to the raw bits is a single leaf whose complete table (recovered
from the switch structure of its MIR over the full 2^width code range) equals the specification
table keyed by public variant names: named codes -> that variant, unassigned codes -> the variant
carrying the code itself, undefined codes -> None.  The static-data part number (an inline match)
is checked on the partition guards.  From<ShipType> for u8 is composed symbolically with
ShipType::parse and must return the code for 1..=99.
"""
from __future__ import annotations
from ..domains import IntSet
from ..extract import Canon
from ..values import VAdt, VInt
from ..interp import lin_of, OPTION
from ..spec import itu, enums
from .common import check_derived_impls, flatten, unwrap_message, strip_wrappers, leaf_table, last
from .c04 import infer_shape


def describe(term):
    """canonical result term -> None | 'Variant' | ('Variant', payload term)"""
    if term == ("none",):
        return None, None
    if term[0] == "some":
        term = term[1]
    if term[0] == "adt":
        fields = term[3]
        if fields:
            return term[2], fields[0][1]
        return term[2], None
    if term[0] == "unitvariant":
        return term[1], None
    return ("?", term), None


def check_table(chk, I, C, cfg, leaf, proj_extra, enum_name, width, where, done):
    key0 = (cfg, leaf, enum_name, width)
    if key0 in done:
        return
    done.add(key0)
    table, w = enums.TABLES[enum_name]
    if width != w:
        chk.ob(False, "C12/width/%s/%d" % (enum_name, width), "%s [%s]: %s decoded from %d bits, the field is %d bits wide" % (where, cfg, enum_name, width, w))
        return
    rows = leaf_table(I, C, leaf, [IntSet.range(0, (1 << w) - 1)])
    covered = IntSet.empty()
    for (sets, term, s2, rv) in rows:
        codes = sets[0]
        covered = covered.union(codes)
        variant, payload = describe(term)
        for c in codes.values():
            want = table[c]
            if want is None:
                ok = variant is None
                exp = "absent"
            elif isinstance(want, tuple):
                ok = variant == want[0] and payload == ("sym", "arg0")
                exp = "%s(code)" % want[0]
            else:
                ok = variant == want and payload is None
                exp = want
            got = "absent" if variant is None else ("%s(%s)" % (variant, "code" if payload == ("sym", "arg0") else payload) if payload is not None else variant)
            chk.ob(ok, "C12/%s/%d/got=%s/want=%s" % (enum_name, c, got, exp),
                   "%s code %d [%s, decoder %s] maps to %s, the specification names it %s" % (enum_name, c, cfg, leaf, got, exp),
                   sample={"enum": enum_name, "code": c, "value": got})
    chk.ob(IntSet.range(0, (1 << w) - 1).subset_of(covered), "C12/%s/total" % enum_name,
           "%s [%s]: decoder table does not cover all %d codes (a code panics or is unreachable)" % (enum_name, cfg, 1 << w))


def run(ctx, chk):
    enums.self_check()
    cfgs = ctx.configs()
    ctx.prefetch(cfgs)
    nfields = 0
    for cfg in cfgs:
        I, outs = ctx.layouts(cfg)
        C = Canon(I.f)
        done = set()
        parts_seen = {}
        ship_leaf = None
        for o in outs:
            if not o.ok:
                continue
            variant, struct, sterm = unwrap_message(o.term)
            flat = flatten(sterm)
            shape = infer_shape(struct, flat, o)
            exp = itu.expected_fields(struct, shape) or {}
            # enumerations inside the communication state
            for p, term in flat.items():
                fname = p.rsplit(".", 1)[-1]
                kind = exp.get(p, (None, None, None))[2]
                is_enum = (kind == "enum") or (fname == "sync_state")
                if not is_enum:
                    continue
                enum_name = enums.FIELD_ENUM.get(fname)
                if enum_name is None:
                    chk.ob(False, "C12/unknown-field/%s" % fname, "%s.%s [%s]: enumeration field without a table" % (struct, p, cfg))
                    continue
                if term[0] == "unitvariant":
                    # defaulted value (type 5 DTE when the bit is missing): C14's business
                    continue
                core, ws = strip_wrappers(term)
                leaves = [x for x in ws if isinstance(x, tuple)]
                if core[0] != "bits" or len(leaves) != 1 or leaves[0][2] != () or leaves[0][3] != ():
                    chk.ob(False, "C12/shape/%s/%s" % (struct, p), "%s.%s [%s]: not a single table decoder applied to the raw code: %r" % (struct, p, cfg, term))
                    continue
                nfields += 1
                # the code that is mapped must be the transmitted one: the field's own bit range
                if p in exp and exp[p][0] is not None:
                    chk.ob((core[1], core[2]) == (exp[p][0], exp[p][1]), "C12/position/%s/%s/got=%s+%s/want=%s+%s" % (struct, p, core[1], core[2], exp[p][0], exp[p][1]),
                           "%s.%s [%s]: the enumeration is decoded from bits %s+%s, the code is transmitted at bits %s+%s" % (struct, p, cfg, core[1], core[2], exp[p][0], exp[p][1]),
                           sample={"enum_field": struct + "." + p, "bits": [core[1], core[2]]})
                check_table(chk, I, C, cfg, leaves[0][1], (), enum_name, core[2], struct + "." + p, done)
                if enum_name == "ShipType":
                    ship_leaf = leaves[0][1]
            if struct == "StaticDataReport":
                g = o.guard.get(("bits", 38, 2), IntSet.range(0, 3))
                part = shape["part"]
                payload = flat.get("message_part#Unknown.0")
                for c in g.values():
                    want = enums.PART[c]
                    ok = (part == want) if isinstance(want, str) else (part == want[0] and payload == ("bits", 38, 2))
                    chk.ob(ok, "C12/part/%d/%s" % (c, part), "static data report part number %d [%s] decodes as %s, expected %s" % (c, cfg, part, want),
                           sample={"enum": "MessagePart", "code": c, "value": part})
                    parts_seen.setdefault(cfg, set()).add(c)
        chk.ob(parts_seen.get(cfg) == {0, 1, 2, 3}, "C12/part/coverage/%s" % sorted(parts_seen.get(cfg, [])), "static data part numbers seen [%s]: %s" % (cfg, sorted(parts_seen.get(cfg, []))))
        # every enum table must have been exercised through some field
        seen_enums = set(k[2] for k in done)
        chk.ob(set(enums.TABLES) <= seen_enums, "C12/enums-unreached/%s" % sorted(set(enums.TABLES) - seen_enums),
               "enumerations never reached through a message field [%s]: %s" % (cfg, sorted(set(enums.TABLES) - seen_enums)))
        # reverse map: u8::from(ShipType::parse(c).unwrap()) == c on 1..=99
        if ship_leaf is not None:
            rev = [b for b in I.f.bodies.values() if b.get("impl_trait", "").endswith("convert::From") and b.get("impl_self") == "u8"
                   and "ShipType" in (b.get("impl_trait_ref") or "")]
            chk.ob(len(rev) == 1, "C12/reverse/missing", "From<ShipType> for u8 not found [%s]" % cfg)
            if len(rev) == 1:
                res, atoms = I.leaf_summary(ship_leaf, [IntSet.range(1, 99)])
                covered = IntSet.empty()
                for (s2, rv) in res:
                    codes = s2.aset(atoms[0])
                    if not (isinstance(rv, VAdt) and rv.adt == OPTION and rv.variant == 1):
                        chk.ob(False, "C12/reverse/none/%s" % (codes,), "ShipType::parse gives no value for codes %r [%s]" % (codes, cfg))
                        continue
                    from ..interp import Interp
                    sub = Interp(I.f, I.ext, inline_leaves=True)
                    outs2 = sub.exec_fn(s2.copy(), rev[0], [rv.fields[0]])
                    for (s3, back) in outs2:
                        c3 = s3.aset(atoms[0])
                        covered = covered.union(c3)
                        bl = lin_of(s3, back) if isinstance(back, VInt) else None
                        ok = bl is not None and (s3.lin_set(bl - VIntAtom(atoms[0])) == IntSet.of(0))
                        chk.ob(ok, "C12/reverse/%s/%r" % (c3, bl), "u8::from(ShipType::parse(c)) is %r for c in %r [%s], expected c" % (bl, c3, cfg),
                               sample={"reverse": "u8::from(ShipType)", "codes": repr(c3), "result": repr(bl)})
                chk.ob(IntSet.range(1, 99).subset_of(covered), "C12/reverse/coverage", "reverse ship-type map not evaluated on all of 1..=99 [%s]" % cfg)
    # the public conversion `ShipType::from(u8)`: the same table as the decoder for the assigned and
    # reserved codes, and no value at all (it is documented to refuse) for the undefined ones -
    # folding them into a named type would make the mapping non-injective
    for cfg in cfgs:
        I, _ = ctx.layouts(cfg)
        C = Canon(I.f)
        fwd = [b for b in I.f.bodies.values() if (b.get("impl_trait") or "").endswith("convert::From") and (b.get("impl_self") or "").endswith("ShipType")
               and "<u8>" in (b.get("impl_trait_ref") or "") and b["def"].endswith("::from")]
        chk.ob(len(fwd) == 1, "C12/forward/missing/%d" % len(fwd), "From<u8> for ShipType not found [%s]" % cfg)
        if len(fwd) != 1:
            continue
        table, w = enums.TABLES["ShipType"]
        try:
            rows = leaf_table(I, C, fwd[0]["def"], [IntSet.range(0, 255)])
        except Exception as e:
            chk.ob(False, "C12/forward/unanalysable", "reason=unanalysable: ShipType::from(u8) [%s]: %r" % (cfg, e))
            continue
        for (sets, term, s2, rv) in rows:
            variant, payload = describe(("some", term)) if term and term[0] != "some" else describe(term)
            for c in sets[0].values():
                want = table.get(c) if c < (1 << w) else None
                if want is None:
                    chk.ob(False, "C12/forward/%d/got=%s/want=refused" % (c, variant), "ShipType::from(%d) [%s] yields %s; code %d is undefined and must not become a value" % (c, cfg, variant, c))
                    break
                ok = (variant == want[0] and payload == ("sym", "arg0")) if isinstance(want, tuple) else (variant == want and payload is None)
                chk.ob(ok, "C12/forward/%d/got=%s" % (c, variant), "ShipType::from(%d) [%s] yields %s, the specification names it %s" % (c, cfg, variant, want),
                       sample={"conversion": "ShipType::from(u8)", "code": c, "value": variant})
    # "distinct codes give distinct values" is observed through `==` (and copies through `clone`):
    # a hand-written `eq` that looks at the discriminant only makes Reserved(75) == Reserved(78)
    want = set(enums.FIELD_ENUM.values())
    check_derived_impls(ctx, chk, "C12", cfgs, lambda short, full: short in want, 8, "whether distinct codes are distinct values")
    chk.cov["configs"] = cfgs
    chk.cov["programs"] = len(cfgs)
    chk.cov["enum_fields_checked"] = nfields
    chk.cov["exhaustive"] = True
    chk.cov["trusted_base"] = ["rustc MIR", "enumeration tables spec/enums.py"]
    chk.ob(nfields >= 80, "C12/floor/%d" % nfields, "only %d enumeration fields were reached" % nfields)


def VIntAtom(a):
    from ..domains import Lin
    return Lin.atom(a)
