"""C05 / C06 / C17 — reassembly: the extracted transition relation of AisParser::parse against the
reference machine (spec/reassembly.py).

The guards of the extracted cells are conjunctions of comparisons between the sentence numbers
(k, n, id), the stored state (s, sid) and constants.  Both the extracted guards and the reference
machine are evaluated over the finite domain (k, n, s) in u8^3 x id-relation x decode x outcome of
the two decoding calls, and must induce the same partition with the same effect in every point:
any formulation of "is the next fragment" that means the same thing passes, one that does not is
reported with a witness point.  This evaluates extracted guard terms, not the program.
"""
from __future__ import annotations
import numpy as np
from ..domains import IntSet, INF
from ..values import VAdt, VSeq, VInt
from ..interp import OPTION, RESULT, lin_of
from ..spec import reassembly as ref
from .fsm import get_fsm

RES = {"ok:Incomplete": ref.INCOMPLETE, "ok:Complete": ref.COMPLETE, "err:other": ref.ERR_SEQ, "err:decode": ref.ERR_DECODE}
SID = {"sid": 0, "id": 1}
SS = {"s": 0, "k": 1, "0": 2}
DD = {"D": 0, "D+P": 1, "P": 2, "[]": 3}
DEL = {None: 0, "P": 1, "D+P": 2}


S_MAX = [255]      # largest stored fragment number in a reachable state (set by state_invariant)


def domain(tier):
    if tier == "thorough":
        v = np.arange(256, dtype=np.int64)
    else:
        v = np.array([0, 1, 2, 3, 4, 5, 9, 10, 126, 127, 128, 129, 253, 254, 255], dtype=np.int64)
    K = v.reshape(-1, 1, 1)
    N = v.reshape(1, -1, 1)
    sv_ = v[v <= S_MAX[0]]
    S = sv_.reshape(1, 1, -1)
    return v, K, N, S


def state_invariant(fsm):
    """The properties quantify over the states reachable by some sequence of lines.  The stored
    fragment number never exceeds 254: it is 0 initially and every transition keeps it, resets it to
    0, or stores k on a path whose guard implies k < n <= 255.  Proved here on the extracted cells
    (inductive step: assume s <= 254, evaluate the guards on a domain containing 253..255).  When
    the proof succeeds the comparison domain is restricted to s <= 254, else it stays 0..255."""
    S_MAX[0] = 254
    v, K, N, S = domain("quick")
    ok = True
    for c in fsm.cells:
        if c.post_s in ("s", "0"):
            continue
        if c.post_s != "k":
            ok = False
            break
        for (cname, sp, sv, idv, id_equal) in id_classes(c):
            for decode in (0, 1):
                mask, _ = eval_guard(c, K, N, S, sp, sv, idv, decode)
                if (mask & (np.broadcast_to(K, mask.shape) > 254)).any():
                    ok = False
    if not ok:
        S_MAX[0] = 255
    return ok


def id_classes(c):
    """(name, sp, sv, idv, id_equal) concrete representatives of the id relation for this cell"""
    if c.atoms["idv"] is None:
        return [("none/none", 0, 7, None, True), ("some/none", 1, 7, None, False)]
    return [("none/some", 0, 7, 7, False), ("eq", 1, 7, 7, True), ("lt", 1, 9, 7, False), ("gt", 1, 5, 7, False)]


def eval_guard(c, K, N, S, sp, sv, idv, decode):
    """boolean array over the (k,n,s) grid; also returns the opaque stub decisions of the cell"""
    A = c.atoms
    env = {A["k"]: K, A["n"]: N, A["s"]: S, A["sp"]: sp, A["sv"]: sv, A["decode"]: decode}
    if A["idv"] is not None:
        env[A["idv"]] = idv
    pc = c.path.st.pc
    mask = np.ones(np.broadcast(K, N, S).shape, dtype=bool)
    foreign = []
    for a, s in pc.sets.items():
        if a in env:
            x = env[a]
            m = np.zeros(mask.shape, dtype=bool)
            for lo, hi in s.iv:
                lo_ = -10 ** 9 if lo == -INF else lo
                hi_ = 10 ** 9 if hi == INF else hi
                m |= (x >= lo_) & (x <= hi_)
            mask &= m
    for f in pc.facts:
        atoms = f.atoms()
        inside = [a in env for a in atoms]
        if all(inside):
            val = f.c
            for a, k in f.terms:
                val = val + k * env[a]
            mask &= (val <= 0)
        elif any(inside):
            foreign.append(f)
    return mask, foreign


def stub_decisions(c):
    u = p = None
    for k, v in c.path.st.pc.opq.items():
        if k[0] == "res" and k[1][0] == "opaque" and "unarmor" in k[1][1]:
            u = v
        if k[0] == "res" and k[1][0] == "opaque" and "messages::parse" in k[1][1]:
            p = v
    return u, p


def shape_key(c):
    # same grammar shape, including the per-element length classes (empty / non-empty channel)
    return tuple(e.sig() for e in c.chain)


def canon_cell(c):
    """guard + effect of a cell with the sentence/state atoms renamed to their roles (so that cells
    of different grammar shapes can be compared structurally)"""
    inv = {v: k for k, v in c.atoms.items() if v is not None}
    pc = c.path.st.pc
    sets = tuple(sorted((inv[a], s.iv) for a, s in pc.sets.items() if a in inv))
    facts = []
    for f in pc.facts:
        if all(a in inv for a in f.atoms()):
            facts.append((tuple(sorted((inv[a], k) for a, k in f.terms)), f.c))
    stubs = stub_decisions(c)
    return (sets, tuple(sorted(facts)), stubs, c.result, c.post_sid, c.post_s, c.post_D, c.delivered, bool(c.capacity), len(c.stores))


_TASK = {}


# which discrepancies with the reference machine matter to which property
#   C05: everything on points where the reference accepts (in-order fragments, unfragmented
#        sentences) - result, delivered data, post-state - and uncovered points (a panic);
#   C06: the code accepts where the reference rejects, delivers other data than the reference, or
#        leaves a different state behind an *accepting* transition; uncovered points;
#   C07: the delivered data only;
#   C17: points where the reference rejects for sequencing, or the sentence is unfragmented: result
#        and post-state (a trace).
def relevant(pid, name, ref_result, cell_result, n_is_1):
    acc_ref = ref_result in (ref.INCOMPLETE, ref.COMPLETE, ref.ERR_DECODE)
    acc_cell = cell_result in ("ok:Incomplete", "ok:Complete", "err:decode")
    if pid == "C05":
        return acc_ref or n_is_1
    if pid == "C06":
        if name == "result":
            return acc_cell and not acc_ref
        if name == "delivered":
            return acc_cell
        return acc_cell and acc_ref and not n_is_1
    if pid == "C07":
        # the buffer kept after an accepted line is what a later completion delivers
        # ... and "requesting decoding changes nothing but the decoded message": the state left
        # behind an accepted line (decode on or off, decoding successful or not) is the reference's
        return name in ("delivered", "post_D", "post_s", "post_sid") and acc_cell and acc_ref
    if pid == "C17":
        return (ref_result == ref.ERR_SEQ or n_is_1) and name in ("result", "post_sid", "post_s", "post_D")
    return True


def _eval_task(args):
    """one (shape group, id class, decode) block of the guard domain; returns violations"""
    gi, ci, decode = args
    pid = _TASK["pid"]
    cells, tier = _TASK["groups"][gi], _TASK["tier"]
    v, K, N, S = domain(tier)
    c0 = cells[0]
    (cname, sp, sv, idv, id_equal) = id_classes(c0)[ci]
    out = []
    masks = []
    for c in cells:
        if c.capacity:
            masks.append(None)
            continue
        mask, foreign = eval_guard(c, K, N, S, sp, sv, idv, decode)
        masks.append(mask if mask.any() else None)
    ncells = sum(1 for m in masks if m is not None)
    npoints = 0
    shape3 = (len(v), len(v), S.shape[2])
    svals = S.reshape(-1)
    Sb = np.broadcast_to(S, shape3)
    Kb = np.broadcast_to(K, shape3)
    for (u_ok, p_ok) in ((True, True), (True, False), (False, True), (False, False)):
        if not decode and (u_ok, p_ok) != (True, True):
            continue
        R = ref.reference(K, N, S, id_equal, decode, u_ok, p_ok)
        # combined reference code; post_sid is irrelevant when the ids are equal
        rsid = np.zeros_like(R["post_sid"]) if id_equal else R["post_sid"]
        rcode = R["result"].astype(np.int32) * 1000 + R["post_D"] * 100 + R["delivered"] * 10 + rsid
        rs_val = np.select([R["post_s"] == 0, R["post_s"] == 1], [Sb, Kb], 0)
        cover = np.zeros(rcode.shape, dtype=np.int8)
        first_code = np.full(rcode.shape, -1, dtype=np.int64)
        conflict = np.zeros(rcode.shape, dtype=bool)
        for c, mask in zip(cells, masks):
            if mask is None:
                continue
            cu, cp = stub_decisions(c)
            if cu is not None and cu != u_ok:
                continue
            if cp is not None and cp != p_ok and u_ok:
                continue
            cover += mask
            csid = 0 if id_equal else SID.get(c.post_sid, 9)
            ccode = RES.get(c.result, 9) * 1000 + DD.get(c.post_D, 9) * 100 + DEL.get(c.delivered, 9) * 10 + csid
            # two transitions over the same point are a contradiction only if they disagree
            full = ccode * 10 + {"s": 0, "k": 1, "0": 2}.get(c.post_s, 9)
            conflict |= mask & (first_code != -1) & (first_code != full)
            first_code = np.where(mask & (first_code == -1), full, first_code)
            cs_val = {"s": Sb, "k": Kb, "0": 0}.get(c.post_s)
            bad = mask & (rcode != ccode)
            bad_s = mask & (rs_val != cs_val) if cs_val is not None else mask
            for (b_, which) in ((bad, "effect"), (bad_s, "post_s")):
                if b_.any():
                    idx = tuple(np.argwhere(b_)[0])
                    pt = (int(v[idx[0]]), int(v[idx[1]]), int(svals[idx[2]]))
                    names = ["result", "post_D", "delivered", "post_sid"] if which == "effect" else ["post_s"]
                    for name in names:
                        want = int(R[name][idx])
                        got = describe_label(c, name)
                        if not relevant(pid, name, int(R["result"][idx]), c.result, pt[1] == 1):
                            continue
                        codes = {"result": RES, "post_D": DD, "delivered": DEL, "post_sid": SID, "post_s": SS}[name]
                        if name == "post_sid" and id_equal:
                            continue
                        if name == "post_s" or codes.get(got, 9) != want:
                            out.append(("v", "fsm/%s/got=%s/want=%s/at=k%d,n%d,s%d,%s,decode%d" % (name, got, want, pt[0], pt[1], pt[2], cname, decode),
                                        "for fragment k=%d of n=%d with stored fragment number s=%d, ids %s, decode=%d: %s is %s, the reference machine says %s" % (
                                            pt[0], pt[1], pt[2], cname, decode, name, got, ref_name(name, want)), gi))
        npoints += cover.size
        holes = cover == 0
        if pid in ("C05", "C17", "C07"):
            acc = (R["result"] == ref.INCOMPLETE) | (R["result"] == ref.COMPLETE) | (R["result"] == ref.ERR_DECODE)
            n1 = np.broadcast_to(N == 1, holes.shape)
            if pid == "C05":
                holes = holes & (acc | n1)
            elif pid == "C17":
                holes = holes & ((R["result"] == ref.ERR_SEQ) | n1)
            else:
                holes = holes & False
        if holes.any():
            idx = tuple(np.argwhere(holes)[0])
            pt = (int(v[idx[0]]), int(v[idx[1]]), int(svals[idx[2]]))
            out.append(("v", "fsm/uncovered/k%d,n%d,s%d,%s,decode%d,u%d,p%d" % (pt[0], pt[1], pt[2], cname, decode, u_ok, p_ok),
                        "no extracted transition covers k=%d n=%d s=%d ids %s decode=%d (a panic or an unanalysed path)" % (pt[0], pt[1], pt[2], cname, decode), gi))
        if conflict.any():
            idx = tuple(np.argwhere(conflict)[0])
            pt = (int(v[idx[0]]), int(v[idx[1]]), int(svals[idx[2]]))
            out.append(("v", "fsm/overlap/k%d,n%d,s%d,%s" % (pt[0], pt[1], pt[2], cname), "two extracted transitions cover k=%d n=%d s=%d ids %s" % (pt[0], pt[1], pt[2], cname), gi))
    return out, npoints, ncells, cname, decode


def compare(ctx, chk, pid, cfg, tier):
    fsm = get_fsm(ctx, cfg)
    inv = state_invariant(fsm)
    chk.note("%s: reachable-state invariant fragment_number <= 254 %s" % (cfg, "proved inductive on the extracted relation; comparison restricted to it" if inv else "NOT proved; comparing on all of 0..255"))
    if pid == "C05" and cfg != "none":
        # with an allocator nothing limits the size of a group: a size-dependent rejection breaks
        # "reassemble to exactly the unfragmented message" for long payloads
        lim = sorted(set(str(c.capacity[0][1]) if c.capacity[0][0] == "size_limit" else "capacity" for c in fsm.cells if c.capacity))
        chk.ob(not lim, "C05/size-limit/%s" % ",".join(lim), "reassembly [%s]: a fragment is rejected because the reassembled payload would exceed %s bytes; in-order groups of any size must complete in this configuration" % (cfg, ",".join(lim)))
    groups = {}
    for c in fsm.cells:
        groups.setdefault(shape_key(c), []).append(c)
    # the reassembly logic must not depend on the shape of the sentence (tag block, '!'/'$', empty
    # channel): all shape groups with / without a sequence id must carry the same cells
    by_id = {}
    for gk, cells in groups.items():
        sig = tuple(sorted(map(repr, (canon_cell(c) for c in cells))))
        by_id.setdefault(cells[0].atoms["idv"] is not None, {}).setdefault(sig, []).append(cells)
    reps = []
    for has_id, sigs in by_id.items():
        if len(sigs) != 1:
            # not a violation in itself: every variant is compared with the reference machine below
            chk.note("%s: the transition relation differs between sentence shapes (%d variants among sentences %s a sequence id); each variant is compared separately" % (cfg, len(sigs), "with" if has_id else "without"))
        for sig, lst in sigs.items():
            reps.append(lst[0])
    _TASK["groups"] = reps
    _TASK["tier"] = tier
    _TASK["pid"] = pid
    tasks = []
    for gi, cells in enumerate(reps):
        for ci in range(len(id_classes(cells[0]))):
            for decode in (0, 1):
                tasks.append((gi, ci, decode))
    if tier == "thorough":
        import multiprocessing as mp
        with mp.get_context("fork").Pool(min(12, len(tasks))) as pool:
            results = pool.map(_eval_task, tasks)
    else:
        results = [_eval_task(t) for t in tasks]
    npoints = ncells = 0
    for (out, npnt, nc, cname, decode) in results:
        npoints += npnt
        ncells += nc
        for (_, key, msg, gi) in out:
            chk.ob(False, "%s/%s" % (pid, key), "reassembly [%s]: %s" % (cfg, msg))
        if not out:
            chk.ob(True, sample={"ids": cname, "decode": decode, "points": npnt, "transitions": nc})
    v = domain(tier)[0]
    chk.cov["states"] = chk.cov.get("states", 0) + int(npoints)
    chk.cov["transitions"] = chk.cov.get("transitions", 0) + int(ncells)
    chk.cov["grammar_shape_groups"] = len(groups)
    chk.cov["domain"] = "k,n,s in %s; id relation in {none/none, some/none, none/some, eq, lt, gt}; decode in {0,1}; unarmor/parse outcome in {ok,err}^2" % ("u8^3 (exhaustive)" if tier == "thorough" else "boundary classes %r ^3" % (list(map(int, v)),))
    chk.cov["exhaustive"] = tier == "thorough"
    return fsm


def describe_label(c, name):
    return {"result": c.result, "post_sid": c.post_sid, "post_s": c.post_s, "post_D": c.post_D, "delivered": c.delivered}[name]


def ref_name(name, code):
    inv = {"result": {1: "Incomplete", 2: "Complete", 3: "Err(sequencing)", 4: "Err(decoding)"},
           "post_sid": {0: "sid", 1: "id"}, "post_s": {0: "s", 1: "k", 2: "0"}, "post_D": {0: "D", 1: "D+P", 2: "P", 3: "[]"},
           "delivered": {0: "nothing", 1: "P", 2: "D+P"}}
    return inv[name].get(code, str(code))


def run(ctx, chk):
    cfgs = ctx.configs()
    ctx.prefetch(cfgs)
    for cfg in cfgs:
        fsm = compare(ctx, chk, "C05", cfg, ctx.tier)
        C = fsm.m.C
        # ---- C05 specifics on the accepting cells
        for c in fsm.cells:
            if c.sentence is None:
                continue
            A = c.atoms
            sv = c.sfields
            # the carried sentence reports the parsed numbers
            for fname, want in (("num_fragments", "n"), ("fragment_number", "k"), ("fill_bit_count", "fill")):
                got = fsm.int_name(c, sv[fname])
                chk.ob(got == want, "C05/sentence/%s/%s" % (fname, got), "reassembly [%s]: %s of the returned sentence is %s, expected the parsed %s" % (cfg, fname, got, want))
            # decoding: unarmor(delivered data, this sentence's fill), then messages::parse of its result
            if c.result == "ok:Complete" and c.message not in (None, "None"):
                un = [e for e in c.calls if e[1].endswith("::unarmor")]
                pa = [e for e in c.calls if e[1].endswith("messages::parse")]
                chk.ob(len(un) == 1 and len(pa) == 1, "C05/decode-calls/%d/%d" % (len(un), len(pa)), "reassembly [%s]: decoding path calls unarmor %d times and messages::parse %d times" % (cfg, len(un), len(pa)))
                if len(un) == 1:
                    a0, a1 = un[0][2]
                    dn = fsm.seq_name(c, a0[1][1]) if a0[0] == "slice" and isinstance(a0[1], tuple) and a0[1][0] == "seq" else "?"
                    chk.ob(dn == c.delivered, "C05/unarmor-data/%s/%s" % (dn, c.delivered), "reassembly [%s]: unarmor is given %s but the delivered payload is %s" % (cfg, dn, c.delivered))
                    fillk = ("int", 64, False, ("lin", ((A["fill"], 1),), 0))
                    chk.ob(a1 == fillk, "C05/unarmor-fill/%r" % (a1[3] if len(a1) > 3 else a1,), "reassembly [%s]: unarmor's fill argument is not the last sentence's fill count: %r" % (cfg, a1),
                           sample={"cell": c.result, "delivered": c.delivered, "unarmor_args": [dn, "fill"]})
            # "split at arbitrary character boundaries": a fragment's payload field must be accepted
            # whatever its characters are - any non-empty run of bytes other than ',' (up to the
            # buffer capacity without an allocator), with no predicate on its content
            pe = c.roles["payload"]
            free = pe.kind == "take_until" and pe.param == b"," and getattr(pe, "first", None) is None and pe.values is None \
                and not getattr(pe, "sub", None) and pe.lo <= 1 and (pe.hi is None or (cfg == "none" and pe.hi >= 384))
            chk.ob(free, "C05/payload-field/%s/%s,%s/%s" % (pe.kind, pe.lo, pe.hi, "first" if getattr(pe, "first", None) is not None else ("sub" if getattr(pe, "sub", None) else "-")),
                   "reassembly [%s]: the payload field is accepted only as %r%s; fragments may begin and end at arbitrary characters" % (
                       cfg, pe, "" if getattr(pe, "first", None) is None else " with first byte in %r" % (pe.first,)))
        # ---- conversions of the result to Option / Result
        check_conversions(ctx, chk, fsm, cfg)
    chk.cov["configs"] = cfgs
    chk.cov["traces_validated_against_impl"] = 0
    chk.cov["trusted_base"] = ["rustc MIR", "Vec::extend_from_slice / mem::swap / Option<u8>::ne / u8::checked_sub contracts", "reference machine spec/reassembly.py"]


def check_conversions(ctx, chk, fsm, cfg):
    """From<AisFragments> for Option<AisSentence> / Result<AisSentence>: Complete -> Some/Ok(sentence), Incomplete -> None/Err"""
    from ..interp import Interp, St
    from ..values import VOpaque
    f = fsm.m.f
    found = 0
    for b in f.bodies.values():
        ref_ = b.get("impl_trait_ref") or ""
        if not (b.get("impl_trait", "").endswith("convert::From") and "AisFragments" in ref_ and b["def"].endswith("::from")):
            continue
        found += 1
        frag_t = f.types[b["locals"][1]]
        adt = f.adts[frag_t["def"]]
        for vi, var in enumerate(adt["variants"]):
            I = Interp(f, fsm.m.I.ext, inline_leaves=True)
            payload = VOpaque("the_sentence")
            outs = I.exec_fn(St(), b, [VAdt(frag_t["def"], vi, (payload,))])
            for (s2, rv) in outs:
                okv = isinstance(rv, VAdt) and ((rv.adt == OPTION and rv.variant == 1) or (rv.adt == RESULT and rv.variant == 0))
                carries = okv and rv.fields and rv.fields[0] is payload
                if var["name"] == "Complete":
                    chk.ob(carries, "C05/convert/%s/Complete/%r" % (b.get("impl_self", "?")[:30], rv), "conversion of Complete into %s [%s] yields %r, expected the sentence" % (b.get("impl_self"), cfg, rv),
                           sample={"conversion": b.get("impl_self"), "Complete": "carries the sentence"})
                else:
                    chk.ob(not okv, "C05/convert/%s/%s/%r" % (b.get("impl_self", "?")[:30], var["name"], rv), "conversion of %s into %s [%s] yields %r, expected None/Err" % (var["name"], b.get("impl_self"), cfg, rv),
                           sample={"conversion": b.get("impl_self"), var["name"]: "None/Err"})
    chk.ob(found == 2, "C05/convert/found/%d" % found, "expected two From<AisFragments> conversions, found %d [%s]" % (found, cfg))
