"""C07 — the sentence reports exactly the transmitted NMEA fields and raw payload.

On every accepting path of AisParser::parse the fields of the returned AisSentence have the
provenance the grammar assigns: talker = table(2 address bytes), report type = table(next 3),
the three numbers / fill = the decimal values of their fields, sequence id and channel optional,
data = the payload bytes (their concatenation for a completed group).  The two byte-string tables
are recovered from the MIR of the From<&[u8]> implementations.  The decode flag reaches one branch
only: with decode off there is no call to unarmor / messages::parse and message = None; every other
effect and field is identical in the decode-on and decode-off cells.
"""
from __future__ import annotations
from ..domains import IntSet, Lin
from ..values import VAdt, VInt, VSeq, VSlice
from ..interp import VApp, OPTION, lin_of
from ..spec import sentence as spec
from .fsm import get_fsm
from .c05 import canon_cell, stub_decisions
from .common import check_derived_impls


def table_of(m, leaf, width):
    """byte string -> variant name of a From<&[u8]> table function; '_' for the default"""
    res, atoms = m.I.leaf_summary(leaf, [None])
    tab = {}
    for (s2, rv) in res:
        vn = m.C.variant_name(rv.adt, rv.variant) if isinstance(rv, VAdt) else "?"
        ln = s2.aset(("len", "$arg0"))
        bytes_ = {}
        for a, st_ in s2.pc.sets.items():
            if a[0] == "byte" and a[1] == "$arg0":
                k = a[2]
                if k[0] == "lin" and not k[1]:
                    bytes_[k[2]] = st_
        if ln.is_single() and len(bytes_) == ln.single() and all(b.is_single() for b in bytes_.values()):
            key = bytes(bytes_[i].single() for i in range(ln.single()))
            tab.setdefault(key, set()).add(vn)
        else:
            tab.setdefault("_", set()).add(vn)
    return tab


def run(ctx, chk):
    cfgs = ctx.configs()
    ctx.prefetch(cfgs)
    for cfg in cfgs:
        # "data = the payload bytes, for a completed group their concatenation": the delivered data
        # term of every cell against the reference machine (shared with C05)
        from .c05 import compare
        fsm = compare(ctx, chk, "C07", cfg, ctx.tier)
        m = fsm.m
        # "arbitrary non-comma payload bytes are reported unmodified": no accepted path may have
        # assumed that a field of the line is valid UTF-8
        dep = sorted(set(repr(k)[:120] for c in fsm.cells for k, v in c.path.st.pc.opq.items() if isinstance(k, tuple) and k and k[0] == "utf8ok" and "'L'" in repr(k) and v is True))
        chk.ob(not dep, "C07/utf8-dependent/%d" % len(dep), "sentences are accepted [%s] only if a field of the line is valid UTF-8 (%s); field bytes are to be passed along as they are" % (cfg, dep[:1]))
        talker_leaves, report_leaves = set(), set()
        n = 0
        for c in fsm.cells:
            if c.sentence is None:
                continue
            n += 1
            r = c.roles
            sv = c.sfields
            st = c.path.st

            def slice_is(v, el, what):
                ok = isinstance(v, VApp) and len(v.args) == 1 and isinstance(v.args[0], VSlice) and v.args[0].buf == "L" and v.args[0].start == el.start and v.args[0].len == el.end - el.start
                chk.ob(ok, "C07/%s/source/%r" % (what, v if not ok else ""), "sentence.%s [%s] is not decoded from the %s bytes of the address field: %r" % (what, cfg, what, v))
                return ok
            if slice_is(sv["talker_id"], r["talker"], "talker_id"):
                talker_leaves.add(sv["talker_id"].defn)
            if slice_is(sv["report_type"], r["report"], "report_type"):
                report_leaves.add(sv["report_type"].defn)
            for fname, want in (("num_fragments", "n"), ("fragment_number", "k"), ("fill_bit_count", "fill")):
                got = fsm.int_name(c, sv[fname])
                chk.ob(got == want, "C07/%s/%s" % (fname, got), "sentence.%s [%s] is %s, expected the decimal value of its own field" % (fname, cfg, got),
                       sample={"field": fname, "source": "decimal field " + want})
            mid = sv["message_id"]
            if "message_id" in r:
                ok = isinstance(mid, VAdt) and mid.adt == OPTION and mid.variant == 1 and fsm.int_name(c, mid.fields[0]) == "idv"
            else:
                ok = isinstance(mid, VAdt) and mid.adt == OPTION and mid.variant == 0
            chk.ob(ok, "C07/message_id/%r" % (mid if not ok else "",), "sentence.message_id [%s] is %r for a sentence %s a sequence id" % (cfg, mid, "with" if "message_id" in r else "without"))
            ch = sv["channel"]
            chel = r["channel"]
            if chel.hi == 0:
                ok = isinstance(ch, VAdt) and ch.variant == 0
            else:
                ok = isinstance(ch, VAdt) and ch.variant == 1 and isinstance(ch.fields[0], VInt) and lin_of(st, ch.fields[0]) == Lin.atom(("byte", "L", chel.start.key()))
            chk.ob(ok, "C07/channel/%r" % (ch if not ok else "",), "sentence.channel [%s] is %r, expected %s" % (cfg, ch, "None (empty field)" if chel.hi == 0 else "the first byte of the channel field"),
                   sample={"field": "channel", "empty": chel.hi == 0})
            want_data = "P" if c.result == "ok:Incomplete" else c.delivered
            chk.ob(c.delivered in ("P", "D+P"), "C07/data/%s" % c.delivered, "sentence.data [%s] is %s" % (cfg, c.delivered), sample={"field": "data", "value": c.delivered})
        chk.ob(n >= 16, "C07/floor/%d" % n, "accepting cells examined [%s]: %d" % (cfg, n))
        # ---- the two tables
        for leaves, table, width, what in ((talker_leaves, spec.TALKERS, 2, "talker id"), (report_leaves, spec.REPORTS, 3, "report type")):
            chk.ob(len(leaves) == 1, "C07/%s/leaves/%d" % (what, len(leaves)), "%s decoders reached [%s]: %r" % (what, cfg, leaves))
            for leaf in leaves:
                tab = table_of(m, leaf, width)
                for key, vn in table.items():
                    got = tab.get(key, tab.get("_"))
                    chk.ob(got == {vn}, "C07/%s/%s/%s" % (what.replace(" ", "_"), key.decode(), sorted(got or [])), "%s %r [%s] decodes as %s, expected %s" % (what, key, cfg, sorted(got or []), vn),
                           sample={what: key.decode(), "value": vn})
                extra = [k for k in tab if k != "_" and k not in table]
                chk.ob(not extra, "C07/%s/extra/%r" % (what.replace(" ", "_"), extra), "%s table [%s] names unknown ids %r" % (what, cfg, extra))
                chk.ob(tab.get("_") == {"Unknown"}, "C07/%s/default/%r" % (what.replace(" ", "_"), tab.get("_")), "unknown %s [%s] decodes as %r, expected Unknown" % (what, cfg, tab.get("_")))
        # ---- decode flag non-interference
        by = {}
        for c in fsm.cells:
            cc = canon_cell(c)
            sets = tuple(x for x in cc[0] if x[0] != "decode")
            dec = dict(cc[0]).get("decode")
            key = (tuple((e.kind, e.lo, e.hi) for e in c.chain), sets, cc[1])
            by.setdefault(key, []).append((dec, cc, c))
        npair = 0
        for key, lst in by.items():
            offs = [x for x in lst if x[0] == ((0, 0),)]
            ons = [x for x in lst if x[0] == ((1, 1),)]
            for (_, cc, c) in offs:
                chk.ob(not c.calls and (c.message in (None, "None")), "C07/decode-off/calls=%d/message=%s" % (len(c.calls), c.message), "with decoding off [%s] the parser calls %r and reports message %s" % (cfg, [e[1] for e in c.calls], c.message))
            if offs and ons:
                npair += 1
                eff_off = set((cc[3], cc[4], cc[5], cc[6], cc[7]) for (_, cc, c) in offs)
                eff_on = set((cc[3], cc[4], cc[5], cc[6], cc[7]) for (_, cc, c) in ons if cc[3] != "err:decode")
                chk.ob(eff_on <= eff_off or not eff_on, "C07/decode-differs/%r/%r" % (sorted(eff_off), sorted(eff_on)),
                       "the decode flag changes more than the decoded message [%s]: effects %r with decoding off, %r with decoding on" % (cfg, sorted(eff_off), sorted(eff_on)),
                       sample={"decode_pair": sorted(map(str, eff_off))[0]})
            elif not offs and not ons:
                pass      # cells that do not mention the decode flag at all (Incomplete, errors)
        chk.ob(npair >= 2, "C07/decode-pairs/%d" % npair, "decode on/off cell pairs compared [%s]: %d" % (cfg, npair))
    check_derived_impls(ctx, chk, "C07", cfgs, lambda short, full: full.startswith("sentence::"), 6, "that the reported sentence fields are the transmitted ones")
    chk.cov["configs"] = cfgs
    chk.cov["trusted_base"] = ["rustc MIR", "nom take / digit1 / take_until contracts", "u8::from_str", "tables in spec/sentence.py"]
