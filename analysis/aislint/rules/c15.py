"""C15 — binary application payloads are passed through bit-exactly.

Rule: in every Ok partition of types 6, 8 and 17 the `data` field is the whole remainder of the
payload slice starting at the byte where the fixed header ends: (i) the value is Rest(P, hdr) with
no sub-slicing, (ii) hdr is the ITU header size (11, 7, 15 bytes), (iii) the bit cursor is byte
aligned at the copy: the reads before it tile [0, 8*hdr) exactly, so the copy of `cursor.0` drops
or repeats no bit, (iv) in the no-alloc build the only other outcome is Err beyond 119 bytes.
"""
from __future__ import annotations
from ..domains import IntSet
from ..spec import itu, lengths
from .common import check_derived_impls, flatten, unwrap_message

HDR = {"BinaryAddressedMessage": ("data", 11, 6), "BinaryBroadcastMessage": ("data", 7, 8), "DgnssBroadcastBinaryMessage": ("payload.data", 15, 17)}


def run(ctx, chk):
    cfgs = ctx.configs()
    ctx.prefetch(cfgs)
    n = 0
    for cfg in cfgs:
        I, outs = ctx.layouts(cfg)
        seen = set()
        for o in outs:
            ts = set(o.tset().values())
            if not ts & {6, 8, 17}:
                continue
            if not o.ok:
                # allowed: too short, or capacity in no-alloc
                if len(ts) != 1:
                    # the type itself could not be read (empty payload)
                    chk.ob(o.nset().max() == 0, "C15/err-multitype/%s" % (o.nset(),), "Err partition shared by several types at %r bytes [%s]" % (o.nset(), cfg))
                    continue
                t = min(ts)
                hdr = {6: 11, 8: 7, 17: 15}[t]
                cap = [e for e in o.st.events if e[0] == "capacity_err"]
                if o.nset().min() >= hdr:
                    ok = cfg == "none" and bool(cap) and o.nset().min() - hdr > 119
                    chk.ob(ok, "C15/rejected/%d/%s" % (t, o.nset().min()), "type %d [%s] rejected at %r bytes although the %d-byte header is present (capacity events: %r)" % (t, cfg, o.nset(), hdr, cap),
                           sample={"type": t, "config": cfg, "rejected_from_bytes": o.nset().min(), "reason": "119-byte capacity"})
                continue
            variant, struct, sterm = unwrap_message(o.term)
            if struct not in HDR:
                chk.ob(False, "C15/unexpected-message/%s" % struct, "a binary-payload message type [%s] decodes to %s, which carries no binary payload" % (cfg, struct))
                continue
            path, hdr, t = HDR[struct]
            flat = flatten(sterm)
            d = flat.get(path)
            n += 1
            seen.add(t)
            chk.ob(d is not None and d[0] == "seq" and d[1] == ("rest", hdr), "C15/%s/data=%s" % (struct, d and d[1]),
                   "%s.%s [%s] is %r, expected all payload bytes from byte %d" % (struct, path, cfg, d, hdr),
                   sample={"struct": struct, "data": "payload[%d..]" % hdr, "bytes": repr(o.nset())})
            # (ii') the application identifier / correction header fields are the transmitted bits
            from ..spec import itu as _itu
            from .c04 import infer_shape
            exp = _itu.expected_fields(struct, infer_shape(struct, flat, o)) or {}
            for fp, (foff, fw, fkind) in exp.items():
                if fkind == "raw" and fp not in ("message_type", "repeat_indicator", "mmsi"):
                    got = flat.get(fp)
                    chk.ob(got == ("bits", foff, fw), "C15/%s/%s/got=%r" % (struct, fp, got), "%s.%s [%s] is %r, the transmitted field occupies bits %d..%d" % (struct, fp, cfg, got, foff, foff + fw - 1))
            # (iii) alignment: reads tile [0, 8*hdr)
            reads = [(e[2], e[3]) for e in o.reads if e[0] == "take" and e[3] > 0]
            # the dispatcher reads the type first; the message parser then starts again at bit 0
            starts = [i for i, r in enumerate(reads) if r[0] == 0]
            reads = reads[starts[-1]:] if starts else reads
            pos = 0
            tiled = True
            for (p0, w) in reads:
                if p0 != pos:
                    tiled = False
                    break
                pos += w
            chk.ob(tiled and pos == 8 * hdr, "C15/%s/aligned/%d" % (struct, pos),
                   "%s [%s]: the reads before the payload copy end at bit %d (tiled: %s); the copy takes whole bytes from byte %d, so %d bit(s) would be lost or repeated" % (struct, cfg, pos, tiled, hdr, abs(8 * hdr - pos)))
            if cfg == "none":
                chk.ob(o.nset().max() - hdr <= 119, "C15/%s/capacity/%s" % (struct, o.nset().max()), "%s [none]: accepted with %r bytes, capacity is 119 data bytes" % (struct, o.nset()))
        chk.ob(seen == {6, 8, 17}, "C15/coverage/%s/%s" % (cfg, sorted(seen)), "binary types reached [%s]: %s" % (cfg, sorted(seen)))
    check_derived_impls(ctx, chk, "C15", cfgs, lambda short, full: full.startswith("messages::binary_") or full.startswith("messages::dgnss_"), 6, "that the reported payload is byte for byte the transmitted one")
    chk.cov["configs"] = cfgs
    chk.cov["programs"] = len(cfgs)
    chk.cov["partitions"] = n
    chk.cov["trusted_base"] = ["rustc MIR", "nom take contract", "<Vec<u8> as From<&[u8]>>::from / heapless TryFrom<&[u8]> copy the slice"]
