"""C14 — variable-length messages decode what is present; short payloads are rejected.

Rule: project every partition of messages::parse on the payload length N (bytes; the partitions are
intervals, the last one unbounded) and compare with the length oracle:
 (a) a payload shorter than the mandatory part of its type is Err;  at and above it the outcome
     is Ok unless a documented capacity of the no-alloc build is exceeded;
 (b) at every specification-legal length (exact and as produced by 6-bit armoring) the outcome
     signature is exact: number of acknowledgements / reservations / stations / requests, second
     assignment, part A with or without spare, truncated destination, DTE default, text length;
 (c) at every length, every reported value has its provenance inside [0, 8N).
"""
from __future__ import annotations
from ..domains import IntSet, INF
from ..spec import itu, lengths
from .common import flatten, unwrap_message, sources, last
from .c04 import infer_shape, text_chars

MAXN = (1 << 28) - 1


def capacity_reason(cfg, o):
    if cfg != "none":
        return None
    for e in o.st.events:
        if e[0] == "capacity_err":
            return "capacity:%s:%s" % (e[1], e[2])
    return None


def run(ctx, chk):
    cfgs = ctx.configs()
    ctx.prefetch(cfgs)
    n_sig = 0
    for cfg in cfgs:
        I, outs = ctx.layouts(cfg)
        by_type = {}
        for o in outs:
            for t in o.tset().values():
                by_type.setdefault(t, []).append(o)
        for t in sorted(itu.DISPATCH):
            os_ = by_type.get(t, [])
            # ---- (c) provenance inside the payload
            for o in os_:
                if not o.ok:
                    continue
                nmin = o.nset().min()
                variant, struct, sterm = unwrap_message(o.term)
                flat = flatten(sterm)
                for p, term in flat.items():
                    for s in sources(term):
                        if s[0] in ("bits", "sext"):
                            if not (isinstance(s[1], int) and isinstance(s[2], int)):
                                chk.ob(False, "C14/beyond-end/%s/%s/symbolic" % (struct, p), "%s.%s [%s] is read from a position that depends on the payload (%r)" % (struct, p, cfg, s))
                                continue
                            chk.ob(s[1] + s[2] <= 8 * nmin, "C14/beyond-end/%s/%s/%s" % (struct, p, s),
                                   "%s.%s [%s] is read from bits %d..%d although the payload may be only %d bytes" % (struct, p, cfg, s[1], s[1] + s[2] - 1, nmin))
            # ---- (a) mandatory part
            for o in os_:
                nset = o.nset()
                if t == 24:
                    # needs the part: Ok outcomes know it; Err outcomes carry the guard on bits 38-39
                    if o.ok:
                        _, struct, sterm = unwrap_message(o.term)
                        part = infer_shape(struct, flatten(sterm), o)["part"]
                        mand = lengths.MANDATORY_BITS_24[part]
                        chk.ob(8 * nset.min() >= mand, "C14/short-accepted/24/%s/%d" % (part, nset.min()),
                               "type 24 %s [%s] accepted with %d bytes, mandatory part is %d bits" % (part, cfg, nset.min(), mand))
                    else:
                        g = o.guard.get(("bits", 38, 2))
                        if g is None:
                            # type could not even be followed by the part number
                            chk.ob(8 * nset.max() < 40, "C14/err/24/nopart/%s" % (nset,), "type 24 [%s] rejected at %r bytes before reading the part" % (cfg, nset))
                        else:
                            for pv in g.values():
                                part = {0: "PartA", 1: "PartB"}.get(pv, "Unknown")
                                mand = lengths.MANDATORY_BITS_24[part]
                                chk.ob(8 * nset.max() < mand, "C14/long-rejected/24/%s/%s" % (part, nset.max()),
                                       "type 24 %s [%s] rejected at %s bytes although the mandatory %d bits are present" % (part, cfg, nset.max(), mand))
                    continue
                mand = lengths.MANDATORY_BITS[t]
                nmin_ok = lengths.exact_bytes(mand)
                if o.ok:
                    chk.ob(nset.min() >= nmin_ok, "C14/short-accepted/%d/%d" % (t, nset.min()),
                           "type %d [%s] accepted with %d bytes: fields fabricated beyond the end (mandatory part is %d bits)" % (t, cfg, nset.min(), mand),
                           sample={"type": t, "config": cfg, "ok_from_bytes": nset.min()})
                else:
                    # rejection above the mandatory size is decided at the legal lengths only (b):
                    # the statement does not fix the behaviour at other lengths
                    chk.ob(True)
            # ---- (b) signatures at the legal lengths
            for bits in lengths.legal_lengths(t):
                for nb in sorted({lengths.exact_bytes(bits), lengths.armored_bytes(bits)}):
                    here = [o for o in os_ if o.nset().contains(nb)]
                    chk.ob(bool(here), "C14/uncovered/%d/%d" % (t, nb), "type %d [%s]: no partition covers %d bytes" % (t, cfg, nb))
                    for o in here:
                        cap = capacity_reason(cfg, o)
                        if t == 24:
                            # part B is 168 bits; a 160-bit message is a part A
                            g = o.guard.get(("bits", 38, 2))
                            if bits == 160 and g is not None and not g.contains(0):
                                continue
                        if not o.ok:
                            if cap or (cfg == "none" and t in (12, 14) and (8 * nb - (72 if t == 12 else 40)) // 6 > 20):
                                chk.ob(True)
                                continue
                            chk.ob(False, "C14/legal-rejected/%d/%d" % (t, bits), "type %d [%s]: a legal %d-bit message (%d bytes) is rejected" % (t, cfg, bits, nb))
                            continue
                        _, struct, sterm = unwrap_message(o.term)
                        flat = flatten(sterm)
                        sh = infer_shape(struct, flat, o)
                        n_sig += 1
                        check_signature(chk, cfg, t, bits, nb, struct, flat, sh, o)
        # element-count formula on every Ok partition (all lengths)
        for t in (7, 13, 20):
            for o in by_type.get(t, []):
                if not o.ok:
                    continue
                _, struct, sterm = unwrap_message(o.term)
                flat = flatten(sterm)
                sh = infer_shape(struct, flat, o)
                cnt = sh.get("acks", sh.get("reservations"))
                nset = o.nset()
                for nb in (nset.min(), min(nset.max(), 10 ** 6)):
                    want = lengths.expected_count(t, nb)
                    chk.ob(cnt == want, "C14/count/%d/%s/%s" % (t, nb if nb < 10 ** 6 else "large", cnt),
                           "type %d [%s]: %s elements reported at %s bytes, %s complete elements are present" % (t, cfg, cnt, nb, want),
                           sample={"type": t, "bytes": nb, "elements": cnt})
        # ---- formulas that hold at *every* length (not only the legal ones)
        for t in (5, 12, 14, 16):
            for o in by_type.get(t, []):
                if not o.ok:
                    continue
                _, struct, sterm = unwrap_message(o.term)
                flat = flatten(sterm)
                sh = infer_shape(struct, flat, o)
                nset = o.nset()
                probes = list(nset.values()) if nset.size() <= 64 else [nset.min(), nset.min() + 1, nset.min() + 7, 200, 1000]
                for nb in probes:
                    bits = 8 * nb
                    if t == 5:
                        chars = min(120, bits - 302) // 6
                        dte = bits - 302 - 6 * chars >= 1
                        chk.ob(sh["dest_chars"] == chars and sh["dte_present"] == dte, "C14/type5/%d/chars=%s/dte=%s" % (nb, sh["dest_chars"], sh["dte_present"]),
                               "type 5 [%s] at %d bytes: destination has %s characters and DTE is %s; %d complete characters are present and DTE is %s" % (
                                   cfg, nb, sh["dest_chars"], "read" if sh["dte_present"] else "defaulted", chars, "present" if dte else "missing"),
                               sample={"type": 5, "bytes": nb, "destination_chars": chars, "dte_present": dte})
                        if not sh["dte_present"]:
                            got = flat.get("dte")
                            chk.ob(got == ("unitvariant", "NotReady"), "C14/type5/dte-default/%s" % (got,),
                                   "type 5 [%s] at %d bytes: a missing DTE is reported as %r, expected the default 'not ready'" % (cfg, nb, got))
                    elif t == 16:
                        want = bits - 92 >= 52
                        chk.ob(sh["second"] == want, "C14/type16/%d/%s" % (nb, sh["second"]), "type 16 [%s] at %d bytes: second station %s, expected %s" % (cfg, nb, sh["second"], want))
                    else:
                        head = 72 if t == 12 else 40
                        tc = text_chars(flat.get("text"))
                        want = (bits - head) // 6
                        got = None
                        if tc is not None:
                            nn = tc[1]
                            got = nn if isinstance(nn, int) else (want if nn == ("fdiv", ("lin", ((("len", "P"), 8),), -head), 6) else None)
                        chk.ob(got == want, "C14/text/%d/%d/%s" % (t, nb, got), "type %d [%s] at %d bytes: text has %s characters, %d complete characters are present" % (t, cfg, nb, got, want))
    chk.cov["configs"] = cfgs
    chk.cov["programs"] = len(cfgs)
    chk.cov["signatures_checked"] = n_sig
    chk.cov["trusted_base"] = ["rustc MIR", "nom take / many_m_n / count contracts", "length oracle spec/lengths.py"]
    chk.assumptions += ["payload shorter than 2^28 bytes"]
    chk.ob(n_sig >= 80 * len(cfgs) // 2, "C14/floor/%d" % n_sig, "only %d legal-length signatures were checked" % n_sig)


class _Shape(dict):
    """the inferred shape of a decoded message; an aspect that could not be inferred (the message
    decoded to another structure altogether) reads as None and fails its comparison"""
    def __missing__(self, k):
        return None


def check_signature(chk, cfg, t, bits, nb, struct, flat, sh, o):
    sh = _Shape(sh)
    def ob(ok, what, got, want):
        chk.ob(ok, "C14/sig/%d/%d/%s/%s" % (t, bits, what, got), "type %d [%s] at the legal length %d bits (%d bytes): %s is %s, expected %s" % (t, cfg, bits, nb, what, got, want),
               sample={"type": t, "bits": bits, "bytes": nb, what: str(got)})
    if t in (7, 13):
        ob(sh["acks"] == (bits - 40) // 32, "acknowledgements", sh["acks"], (bits - 40) // 32)
    elif t == 20:
        want = min(4, (bits - 40 + 2) // 30)
        ob(sh["reservations"] == want, "reservations", sh["reservations"], want)
    elif t == 16:
        ob(sh["second"] == (bits == 144), "second station", sh["second"], bits == 144)
    elif t == 15:
        st = sh["stations"] or []
        if bits == 88:
            ok = len(st) == 1 and st[0] >= 1
            off = flat.get("stations[0].messages[0].slot_offset")
            ok = ok and off is not None and (off[0] == "some" or ("bits", 76, 12) in o.guard)
            # a second request may only be reported from padding bits when they are not zero
            if len(st) == 1 and st[0] == 2:
                g = o.guard.get(("bits", 90, 6))
                ok = ok and nb * 8 >= 96 and g is not None and not g.contains(0)
            ob(ok, "stations", st, "one station, one request with its slot offset")
        elif bits in (110, 112):
            ok = len(st) == 1 and st[0] in (1, 2)
            if st and st[0] == 1:
                g = o.guard.get(("bits", 90, 6))
                g2 = o.guard.get(("bits", 96, 12))
                ok = ok and g is not None and g == IntSet.of(0) and g2 is not None and g2 == IntSet.of(0)
            ob(ok, "stations", st, "one station with two requests (the second dropped only when all-zero)")
        elif bits == 160:
            ok = len(st) == 2 and st[0] in (1, 2) and st[1] >= 1
            if ok and st[1] == 2:
                g = o.guard.get(("bits", 160, 6))
                ok = nb * 8 >= 166 and g is not None and not g.contains(0)
            ob(ok, "stations", st, "two stations")
    elif t == 24:
        part = sh["part"]
        ob(part in ("PartA", "PartB", "Unknown"), "part", part, "A/B/other")
        if part == "PartA":
            tc = text_chars(flat.get("message_part#PartA.vessel_name"))
            ob(tc is not None and tc[1] == 20, "vessel_name characters", tc and tc[1], 20)
    elif t == 5:
        ob(sh.get("dest_chars") == 20, "destination characters", sh.get("dest_chars"), 20)
        ob(sh.get("dte_present"), "dte read", sh.get("dte_present"), True)
    elif t in (12, 14):
        tc = text_chars(flat.get("text"))
        head = 72 if t == 12 else 40
        want = (8 * nb - head) // 6
        got = None
        if tc is not None:
            n = tc[1]
            if isinstance(n, int):
                got = n
            elif n == ("fdiv", ("lin", ((("len", "P"), 8),), -head), 6):
                got = want
        ob(got == want and want >= 1, "text characters", got if got is not None else (tc and tc[1]), want)
    elif t in (6, 8, 17):
        hdr = {6: 11, 8: 7, 17: 15}[t]
        d = flat.get("data") or flat.get("payload.data")
        ob(d is not None and d[0] == "seq" and d[1] == ("rest", hdr), "binary data", d, "the %d bytes after the %d-byte header" % (nb - hdr, hdr))
    else:
        chk.ob(True, sample={"type": t, "bits": bits, "bytes": nb, "outcome": "Ok " + struct})
