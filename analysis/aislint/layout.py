"""Layout extraction: enter messages::parse with a symbolic payload buffer."""
from __future__ import annotations
import sys, time
from .domains import IntSet, Lin
from .values import *
from .interp import Interp, Facts, St, Unanalysable, MAXLEN
from . import xform

BUF = "P"
NLEN = ("len", BUF)


def run_messages_parse(facts, only_types=None):
    I = Interp(facts, xform.EXT)
    st = St()
    if only_types is not None:
        st.pc.sets[("bits", BUF, 0, 6)] = only_types
    root = facts.bodies[facts.crate + "::messages::parse"]
    buf = VSlice(BUF, Lin.const(0), Lin.atom(NLEN))
    outs = I.exec_fn(st, root, [buf])
    return I, outs


if __name__ == "__main__":
    f = Facts(sys.argv[1])
    types = IntSet.of(*[int(x) for x in sys.argv[2].split(",")]) if len(sys.argv) > 2 else None
    t0 = time.time()
    I, outs = run_messages_parse(f, types)
    for st, rv in outs:
        print("----", "; ".join(st.pc.describe()))
        print("   ", rv)
    print(len(outs), "paths", I.paths, "steps", "%.2fs" % (time.time() - t0))
    for k, o in I.obl.items():
        if o.failures:
            print("OBL FAIL", k, o.kind, o.loc, o.failures[0][0])
    print("unknown externals:", list(I.unknown_ext))
