"""Sentence-layer extraction: AisParser::parse with a symbolic parser state and a symbolic line."""
from __future__ import annotations
import sys, time
from .domains import IntSet, Lin
from .values import *
from .interp import Interp, Facts, St, Unanalysable, MAXLEN, OPTION
from . import xform

LINE = "L"


def sym_u8(name):
    return VInt(8, False, lin=Lin.atom(("sym", name, 0, 255)))


def run_parser(facts, decode=None, stubs=None, budget=20000, state_sets=None):
    """state_sets: optional {field name: IntSet} restricting the symbolic pre-state to a proved
    invariant of the reachable states"""
    I = Interp(facts, xform.EXT, budget=budget)
    crate = facts.crate
    if stubs is None:
        stubs = [crate + "::messages::unarmor", crate + "::messages::parse"]
    I.stubs = set(stubs)
    st = St()
    root = [b for b in facts.bodies.values() if b["def"].endswith("::parse") and b.get("impl_self", "").endswith("AisParser")]
    assert len(root) == 1, [b["def"] for b in root]
    root = root[0]
    # symbolic self: AisParser { message_id: Option<u8>, fragment_number: u8, data: Vec<u8> }
    selft = facts.types[root["locals"][1]]
    adt = facts.types[selft["ty"]]
    fields = facts.adts[adt["def"]]["variants"][0]["fields"]
    vals = []
    for fdef in fields:
        t = facts.types[fdef["ty"]]
        nm = "self." + fdef["name"]
        if t["k"] == "int":
            a = ("sym", nm, 0, (1 << t["w"]) - 1)
            vals.append(VInt(t["w"], t["s"], lin=Lin.atom(a)))
            if state_sets and fdef["name"] in state_sets:
                st.pc.sets[a] = state_sets[fdef["name"]]
        elif t["k"] == "adt" and t["def"] == OPTION:
            vals.append(VSymEnum(OPTION, ("sym", nm + "?", 0, 1), {0: (), 1: (sym_u8(nm + ".val"),)}))
        elif t["k"] == "adt" and "Vec" in t["def"]:
            vals.append(VSeq(("sym", nm), xform.vec_cap(I, t)))
        else:
            raise Unanalysable("AisParser field %s of type %s" % (fdef["name"], t["text"]))
    selfv = VAdt(adt["def"], 0, vals)
    cell = I.new_cell(st, selfv)
    I.watch_cells.add(cell)
    line = VSlice(LINE, Lin.const(0), Lin.atom(("len", LINE)))
    if decode is None:
        dec = VBool(("in", ("sym", "decode", 0, 1), IntSet.of(1)))
    else:
        dec = VBool(decode)
    outs = I.exec_fn(st, root, [VRef(cell, (), True), line, dec])
    return I, cell, outs


if __name__ == "__main__":
    f = Facts(sys.argv[1])
    t0 = time.time()
    I, cell, outs = run_parser(f)
    for st, rv in outs:
        print("----", "; ".join(st.pc.describe())[:1500])
        print("   self:", st.store[cell])
        print("   ret :", repr(rv)[:600])
    print(len(outs), "paths", I.paths, "steps", "%.2fs" % (time.time() - t0))
    for k, o in I.obl.items():
        if o.failures:
            print("OBL FAIL", k, o.kind, o.loc, o.failures[0][0])
    print("unknown externals:", list(I.unknown_ext))
