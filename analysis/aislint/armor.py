"""unarmor extraction: run messages::unarmor on a symbolic armored buffer."""
from __future__ import annotations
import sys, time
from .domains import IntSet, Lin
from .values import *
from .interp import Interp, Facts, St, Unanalysable, MAXLEN
from . import xform

ABUF = "A"


def run_unarmor(facts, budget=20000):
    # helper functions called from unarmor (a per-byte table, a masking helper) are part of the
    # algorithm under test: interpret them inline rather than as opaque leaf applications
    I = Interp(facts, xform.EXT, inline_leaves=True, budget=budget)
    I.cong_atoms.add(("len", ABUF))
    st = St()
    root = facts.bodies[facts.crate + "::messages::unarmor"]
    data = VSlice(ABUF, Lin.const(0), Lin.atom(("len", ABUF)))
    fill = VInt(64, False, lin=Lin.atom(("sym", "fill", 0, 5)))
    outs = I.exec_fn(st, root, [data, fill])
    return I, outs


if __name__ == "__main__":
    f = Facts(sys.argv[1])
    t0 = time.time()
    I, outs = run_unarmor(f)
    for st, rv in outs:
        print("----", "; ".join(st.pc.describe())[:600])
        print("   ", repr(rv)[:1200])
    print(len(outs), "paths", I.paths, "steps", "%.2fs" % (time.time() - t0))
    for k, o in I.obl.items():
        if o.failures:
            print("OBL FAIL", k, o.kind, o.loc, o.failures[0][0], o.failures[0][1][:6])
    print("unknown externals:", list(I.unknown_ext))
