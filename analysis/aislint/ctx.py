"""Analysis context: facts per configuration (built from /repo's working tree on demand) and
cached extracted models."""
from __future__ import annotations
import os, subprocess, sys, hashlib
from .interp import Facts
from . import extract

VERIF = "/verif"


# the transformer contracts in xform.py were written from exactly these sources
PINNED = {
    "nom": ("7.1.3", "d273983c5a657a70a3e8f2a01329822f3b8c8172b73826411a55751e404a0a4a"),
    "heapless": ("0.7.17", "cdc6457c0eb62c71aac4bc17216026d8410337c4126773b9c5daba343f17964f"),
}


def contracts_valid(repo):
    """(ok, message): Cargo.lock of the analysed tree pins the dependency versions the contracts were
    written for, and the .crate files in the cargo cache hash to the recorded checksums"""
    import re, glob, hashlib
    try:
        lock = open(os.path.join(repo, "Cargo.lock")).read()
    except OSError as e:
        return False, "Cargo.lock unreadable: %s" % e
    for name, (ver, sha) in PINNED.items():
        m = re.search(r'name = "%s"\nversion = "([^"]+)"\n(?:source = "[^"]*"\n)?checksum = "([0-9a-f]+)"' % name, lock)
        if not m:
            return False, "%s not pinned in Cargo.lock" % name
        if m.group(1) != ver or m.group(2) != sha:
            return False, "%s %s (checksum %s...) is not the version the contracts were written for (%s)" % (name, m.group(1), m.group(2)[:12], ver)
        files = glob.glob(os.path.expanduser("~/.cargo/registry/cache/*/%s-%s.crate" % (name, ver)))
        if not files:
            return False, "%s-%s.crate not in the cargo cache" % (name, ver)
        if hashlib.sha256(open(files[0], "rb").read()).hexdigest() != sha:
            return False, "%s-%s.crate in the cargo cache does not hash to the pinned checksum" % (name, ver)
    return True, "nom 7.1.3 and heapless 0.7.17 pinned by Cargo.lock and verified against the cargo cache"


class Ctx:
    def __init__(self, tier, profile=""):
        self.tier = tier
        # "" = the ordinary (debug-assertions on) build; "nd" = the same configurations compiled
        # without debug assertions (bin/facts <cfg>-nd), analysed only when their MIR differs
        self.profile = profile
        self._sfx = "-nd" if profile == "nd" else ""
        self._used = set()
        self._facts_dir = None
        self._facts = {}
        self._layouts = {}
        self.contracts_ok = None

    def configs(self, quick=("std", "alloc", "none", "both"), thorough=("std", "alloc", "none", "both")):
        # every tier analyses all four feature combinations (std; alloc without std; neither; std
        # and alloc together, which cargo's feature unification produces as soon as one dependant
        # asks for alloc): a divergence that exists in only one of them is as much a violation as
        # any other
        cfgs = list(thorough if self.tier == "thorough" else quick)
        if "both" in cfgs and not self.both_differs():
            cfgs.remove("both")      # identical MIR: everything decided for std holds for std+alloc
        return cfgs

    def both_differs(self):
        """does the crate compile to different MIR with std and alloc together than with std alone?
        (the two fact files are compared in full, the configuration label aside)"""
        if not hasattr(self, "_both"):
            import json
            d = self.facts_dir(["std", "both"])
            a = json.load(open(os.path.join(d, "std" + self._sfx, "ais.json")))
            b = json.load(open(os.path.join(d, "both" + self._sfx, "ais.json")))
            a.pop("config", None)
            b.pop("config", None)
            self._both = a != b
            self._used.add(("both", "ais"))
        return self._both

    def facts_dir(self, configs):
        r = subprocess.run([os.path.join(VERIF, "bin", "facts")] + [c + self._sfx for c in configs], stdout=subprocess.PIPE, stderr=subprocess.PIPE, text=True)
        if r.returncode != 0:
            sys.stderr.write(r.stderr)
            raise SystemExit("facts: cannot build /repo for configurations %s" % (configs,))
        return r.stdout.strip().splitlines()[-1]

    def facts(self, cfg, crate="ais"):
        key = (cfg, crate)
        if key not in self._facts:
            d = self.facts_dir([cfg])
            self._used.add((cfg, crate))
            p = os.path.join(d, cfg + self._sfx, crate + ".json")
            if not os.path.exists(p) or os.path.getsize(p) == 0:
                raise SystemExit("facts file missing: " + p)
            self._facts[key] = Facts(p)
        return self._facts[key]

    def prefetch(self, cfgs):
        self.facts_dir(cfgs)

    def profile_dependent(self):
        """the analysed (configuration, crate) pairs whose MIR differs when debug assertions are
        compiled out (`debug_assert!` with an effect, `cfg(debug_assertions)` code): the facts of
        both builds are compared byte for byte"""
        import filecmp
        out = []
        used = sorted(self._used)
        if not used or self._sfx:
            return out
        cfgs = sorted(set(c for c, _ in used))
        r = subprocess.run([os.path.join(VERIF, "bin", "facts")] + cfgs + [c + "-nd" for c in cfgs], stdout=subprocess.PIPE, stderr=subprocess.PIPE, text=True)
        if r.returncode != 0:
            sys.stderr.write(r.stderr)
            raise SystemExit("facts: cannot build /repo without debug assertions for %s" % (cfgs,))
        d = r.stdout.strip().splitlines()[-1]
        for cfg, crate in used:
            a, b = os.path.join(d, cfg, crate + ".json"), os.path.join(d, cfg + "-nd", crate + ".json")
            if not (os.path.exists(b) and filecmp.cmp(a, b, shallow=False)):
                out.append((cfg, crate))
        return out

    def sentmodel(self, cfg):
        if not hasattr(self, "_sm"):
            self._sm = {}
        if cfg not in self._sm:
            from .rules.sent_common import SentModel
            self._sm[cfg] = SentModel(self.facts(cfg))
        return self._sm[cfg]

    def layouts(self, cfg):
        if cfg not in self._layouts:
            self._layouts[cfg] = extract.extract_layouts(self.facts(cfg))
        return self._layouts[cfg]
