"""Analysis context: facts per configuration (built from /repo's working tree on demand) and
cached extracted models."""
from __future__ import annotations
import os, subprocess, sys, hashlib
from .interp import Facts
from . import extract

VERIF = "/verif"


class Ctx:
    def __init__(self, tier):
        self.tier = tier
        self._facts_dir = None
        self._facts = {}
        self._layouts = {}
        self.contracts_ok = None

    def configs(self, quick=("std", "none"), thorough=("std", "alloc", "none")):
        return list(thorough if self.tier == "thorough" else quick)

    def facts_dir(self, configs):
        r = subprocess.run([os.path.join(VERIF, "bin", "facts")] + list(configs), stdout=subprocess.PIPE, stderr=subprocess.PIPE, text=True)
        if r.returncode != 0:
            sys.stderr.write(r.stderr)
            raise SystemExit("facts: cannot build /repo for configurations %s" % (configs,))
        return r.stdout.strip().splitlines()[-1]

    def facts(self, cfg, crate="ais"):
        key = (cfg, crate)
        if key not in self._facts:
            d = self.facts_dir([cfg])
            p = os.path.join(d, cfg, crate + ".json")
            if not os.path.exists(p) or os.path.getsize(p) == 0:
                raise SystemExit("facts file missing: " + p)
            self._facts[key] = Facts(p)
        return self._facts[key]

    def prefetch(self, cfgs):
        self.facts_dir(cfgs)

    def sentmodel(self, cfg):
        if not hasattr(self, "_sm"):
            self._sm = {}
        if cfg not in self._sm:
            from .rules.sent_common import SentModel
            self._sm[cfg] = SentModel(self.facts(cfg))
        return self._sm[cfg]

    def layouts(self, cfg):
        if cfg not in self._layouts:
            self._layouts[cfg] = extract.extract_layouts(self.facts(cfg))
        return self._layouts[cfg]
