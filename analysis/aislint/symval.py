"""symbolic ("any value of this type") abstract values, used to analyse a function on its own
(hand-written trait impls such as Debug::fmt) instead of from one of the entry points"""
from __future__ import annotations
from .domains import IntSet, Lin
from .values import *
from .interp import Unanalysable, OPTION


def sym_of_type(I, st, tix, name, depth=0):
    f = I.f
    t = f.types[tix]
    k = t["k"]
    if depth > 6:
        return VOpaque("sym:" + name, tix)
    if k == "int":
        lo, hi = (-(1 << (t["w"] - 1)), (1 << (t["w"] - 1)) - 1) if t["s"] else (0, (1 << t["w"]) - 1)
        return VInt(t["w"], t["s"], lin=Lin.atom(("sym", name, lo, hi)))
    if k == "bool":
        return VBool(("in", ("sym", name, 0, 1), IntSet.of(1)))
    if k == "float":
        return VFloat(("sym", name))
    if k == "char":
        return VInt(32, False, lin=Lin.atom(("sym", name, 0, 0x10FFFF)))
    if k == "tuple":
        return VTuple(tuple(sym_of_type(I, st, x, "%s.%d" % (name, i), depth + 1) for i, x in enumerate(t["tys"])))
    if k == "ref":
        inner = sym_of_type(I, st, t["ty"], name, depth + 1)
        if isinstance(inner, (VSlice, VStr)):
            return inner
        return VRef(I.new_cell(st, inner), ())
    if k == "str":
        return VStr(("sym", name), False)
    if k == "slice":
        return VSlice(name, Lin.const(0), Lin.atom(("len", name)))
    if k == "adt":
        d = t["def"]
        if "Vec" in d.rsplit("::", 1)[-1]:
            from .xform import vec_cap
            return VSeq(("sym", name), vec_cap(I, t))
        if d.rsplit("::", 1)[-1] == "String":
            return VStr(("sym", name), True)
        if d == "nom::error::Error":
            # pub struct Error<I> { pub input: I, pub code: ErrorKind } (nom 7.1.3, pinned)
            args = [g["ty"] for g in t.get("args", []) if "ty" in g]
            inp = sym_of_type(I, st, args[0], name + ".input", depth + 1) if args else VOpaque("sym:" + name + ".input")
            return VAdt(d, 0, (inp, VOpaque("sym:" + name + ".code")))
        a = f.adts.get(d)
        if not a or not a.get("described") or not a["variants"]:
            return VOpaque("sym:" + name, tix)
        # generic arguments of std containers (Option<T>) are found through the type's own args
        def field_ty(fld):
            ft = f.types[fld["ty"]]
            if ft["k"] == "param":
                for g, nm in zip(t.get("args", []), a.get("generics", [])):
                    if nm == ft.get("name") and "ty" in g:
                        return g["ty"]
                args = [g["ty"] for g in t.get("args", []) if "ty" in g]
                if len(args) == 1:
                    return args[0]
                raise Unanalysable("field of generic type %s" % t["text"])
            return fld["ty"]
        if len(a["variants"]) == 1:
            v = a["variants"][0]
            return VAdt(d, 0, tuple(sym_of_type(I, st, field_ty(fl), "%s.%s" % (name, fl["name"]), depth + 1) for fl in v["fields"]))
        by = {}
        for vi, v in enumerate(a["variants"]):
            by[vi] = tuple(sym_of_type(I, st, field_ty(fl), "%s#%s.%s" % (name, v["name"], fl["name"]), depth + 1) for fl in v["fields"])
        return VSymEnum(d, ("sym", name + "?", 0, len(a["variants"]) - 1), by)
    return VOpaque("sym:" + name, tix)
