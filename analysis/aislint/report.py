"""Evidence / violation / known-finding plumbing shared by all rule modules."""
from __future__ import annotations
import json, os, sys, time, re

VERIF = os.environ.get("VERIF_DIR", "/verif")
KNOWN_FILE = os.path.join(VERIF, "known_findings.txt")

LEVELS = {"proof", "translation_validation", "model_checking", "exploration", "fault_enumeration", "other"}


def load_known():
    known, fixed = {}, []
    if not os.path.exists(KNOWN_FILE):
        return known, fixed
    for line in open(KNOWN_FILE):
        line = line.strip()
        if not line or line.startswith("#"):
            continue
        m = re.match(r"known:\s+property=(\S+)\s+key=(\S+)\s+(.*)$", line)
        if m:
            known[(m.group(1), m.group(2))] = m.group(3)
            continue
        m = re.match(r"fixed:\s+property=(\S+)\s+(\S+)\s+(.*)$", line)
        if m:
            fixed.append((m.group(1), m.group(2), m.group(3)))
    return known, fixed


class Check:
    def __init__(self, pid, tier, level):
        assert level in LEVELS
        self.pid, self.tier, self.level = pid, tier, level
        self.t0 = time.time()
        self.violations = []      # (key, message, detail)
        self.seen = set()
        self.obligations = 0
        self.discharged = 0
        self.samples = []
        self.notes = []
        self.assumptions = []
        self.cov = {}
        self.seed = int(os.environ.get("VERIF_SEED", "0") or 0)
        self.tag = ""

    # an obligation = one instance of a rule evaluated on one construct
    def ob(self, ok, key=None, msg=None, detail=None, sample=None):
        self.obligations += 1
        if ok:
            self.discharged += 1
            if sample is not None and len(self.samples) < 12:
                self.samples.append(sample)
        else:
            self.violation(key, msg, detail)
        return ok

    def violation(self, key, msg, detail=None):
        key = re.sub(r"\s+", "", str(key))
        if key in self.seen:
            return
        self.seen.add(key)
        self.violations.append((key, (self.tag + msg) if self.tag and msg else msg, detail))

    def note(self, s):
        self.notes.append(s)

    def finish(self, **coverage):
        known, fixed = load_known()
        real = []
        lines = []
        for (key, msg, detail) in self.violations:
            kf = known.get((self.pid, key))
            if kf is not None:
                lines.append("KNOWN-FINDING: property=%s %s" % (self.pid, kf))
            else:
                real.append((key, msg, detail))
        os.makedirs(os.path.join(VERIF, "evidence", "violations"), exist_ok=True)
        # remove stale replay files of this property
        vdir = os.path.join(VERIF, "evidence", "violations")
        for fn in os.listdir(vdir):
            if fn.startswith(self.pid + "-"):
                os.remove(os.path.join(vdir, fn))
        for i, (key, msg, detail) in enumerate(real, 1):
            path = os.path.join(vdir, "%s-%d.json" % (self.pid, i))
            json.dump({"property": self.pid, "key": key, "message": msg, "detail": detail}, open(path, "w"), indent=1, default=str)
            print("%s: %s" % (self.pid, msg))
            if detail:
                print("    " + str(detail)[:2000])
            print("    key=%s" % key)
            lines.append("VIOLATION property=%s replay=%s" % (self.pid, path))
        cov = dict(self.cov)
        cov.update(coverage)
        cov.setdefault("obligations", self.obligations)
        cov.setdefault("discharged", self.discharged)
        cov.setdefault("checker_cmd", "bin/check %s %s" % (self.pid, self.tier))
        cov.setdefault("trusted_base", [])
        cov.setdefault("samples", self.samples or ["(none)"])
        cov.setdefault("evaluations", max(1, self.obligations))
        cov.setdefault("distinct_nontrivial", max(2, self.discharged))
        cov.setdefault("rule", "one obligation per rule instance per construct; distinct by (rule, construct)")
        cov.setdefault("programs", 1)
        cov.setdefault("disagreements_checked", self.obligations)
        cov.setdefault("states", max(1, cov.get("states", 1)))
        cov.setdefault("transitions", max(1, cov.get("transitions", 1)))
        cov.setdefault("traces_validated_against_impl", 0)
        cov.setdefault("explanation", "static analysis of the MIR of /repo's current working tree")
        cov["notes"] = self.notes
        cov["known_findings_reported"] = [l for l in lines if l.startswith("KNOWN")]
        ev = {
            "property_id": self.pid,
            "tier": self.tier,
            "seed": self.seed,
            "level": self.level,
            "coverage": cov,
            "assumptions": self.assumptions,
            "wall_s": round(time.time() - self.t0, 3),
            "violations": len(real),
        }
        json.dump(ev, open(os.path.join(VERIF, "evidence", self.pid + ".json"), "w"), indent=1, default=str)
        for l in lines:
            print(l)
        print("%s %s: %d obligations, %d discharged, %d violation(s), %d known finding(s), %.1fs" % (
            self.pid, self.tier, self.obligations, self.discharged, len(real), len(lines) - len(real), time.time() - self.t0))
        return 1 if real else 0
