"""Extractors: turn interpreter outcomes into comparable models (Layout, LeafMap, ...).

Canonical terms (JSON-able, hashable as tuples):
  ("bits", off, w)                 unsigned bits [off, off+w) of the payload, MSB first
  ("sext", off, w)                 the same, two's complement
  ("const", n)
  ("app", leaf, (args...), proj)   leaf decoder application
  ("text", off, nchars|term, elemleaf, (trims...))
  ("rest", byte_off)               the payload bytes from byte_off to the end
  ("list", (items...))
  ("adt", name, variant, ((field, term)...))
  ("some", t) / ("none",)
  ("opaque", tag)
"""
from __future__ import annotations
from .domains import IntSet, Lin, INF
from .values import *
from .interp import Interp, Facts, St, Unanalysable, VApp, OPTION, RESULT, lin_of, MAXLEN
from . import xform

BUF = "P"
NLEN = ("len", BUF)


def canon_lin(lin):
    if lin.is_const():
        return ("const", lin.c)
    sa = lin.single_atom()
    if sa and sa[1] == 1 and sa[2] == 0:
        return canon_atom(sa[0])
    return ("lin", tuple((canon_atom(a), k) for a, k in lin.terms), lin.c)


def canon_atom(a):
    k = a[0]
    if k == "bits":
        off = a[2]
        if isinstance(off, tuple) and off and off[0] == "elem":
            return ("elem", off[1], off[2])
        return ("bits", a[2], a[3]) if a[1] == BUF else ("bits@", a[1], a[2], a[3])
    if k == "sext":
        inner = canon_atom(a[1])
        if inner[0] == "bits":
            return ("sext", inner[1], inner[2])
        return ("sext?", inner, a[2])
    if k == "len":
        return ("len", a[1])
    if k == "fdiv":
        return ("fdiv", canon_lin(a[1]), a[2])
    if k == "mod":
        return ("mod", canon_lin(a[1]), a[2])
    if k == "sym":
        return ("sym", a[1])
    if k == "byte":
        return ("byte", a[1], a[2])
    return ("atom",) + tuple(canon_atom(x) if isinstance(x, tuple) and x and isinstance(x[0], str) else (canon_lin(x) if isinstance(x, Lin) else x) for x in a)


class Canon:
    def __init__(self, facts):
        self.f = facts

    def field_names(self, adt, variant):
        a = self.f.adts.get(adt)
        if not a or not a["variants"]:
            return None
        return [x["name"] for x in a["variants"][variant]["fields"]]

    def adt_name(self, adt):
        # the def key (crate-qualified definition path) is the same in every configuration; the
        # compiler's "visible path" (std::result::Result vs core::result::Result) is not
        return adt

    def variant_name(self, adt, variant):
        a = self.f.adts.get(adt)
        if a and a["variants"]:
            return a["variants"][variant]["name"]
        return str(variant)

    def val(self, st, v):
        if isinstance(v, VInt):
            return canon_lin(lin_of(st, v))
        if isinstance(v, VBool):
            c = v.cond
            if c is True or c is False:
                return ("const", int(c))
            return ("bool", self.cond(c))
        if isinstance(v, VFloat):
            return ("float", self.fterm(v.term))
        if isinstance(v, VApp):
            return ("app", v.defn, tuple(self.val(st, a) for a in v.args), v.proj)
        if isinstance(v, VAdt):
            if v.adt == OPTION:
                return ("some", self.val(st, v.fields[0])) if v.variant == 1 else ("none",)
            names = self.field_names(v.adt, v.variant) or [str(i) for i in range(len(v.fields))]
            return ("adt", self.adt_name(v.adt), self.variant_name(v.adt, v.variant),
                    tuple((n, self.val(st, x)) for n, x in zip(names, v.fields)))
        if isinstance(v, VTuple):
            return ("tuple", tuple(self.val(st, x) for x in v.items))
        if isinstance(v, VList):
            return ("list", tuple(self.val(st, x) for x in v.items), v.cap)
        if isinstance(v, VSeq):
            return ("seq", self.seq(v.term), v.cap)
        if isinstance(v, VStr):
            return ("str", self.strterm(st, v.term))
        if isinstance(v, VSlice):
            return ("slice", v.buf if not isinstance(v.buf, tuple) else tuple(v.buf), canon_lin(v.start), canon_lin(v.len))
        if isinstance(v, VElems):
            return ("elems", v.pos, v.k, canon_lin(v.n), self.val(st, v.elem), v.cap)
        if isinstance(v, VOpaque):
            return ("opaque", v.tag)
        if isinstance(v, VUnit):
            return ("unit",)
        if isinstance(v, VClosure):
            return ("closure", v.defn, tuple(self.val(st, x) for x in v.upvars))
        if isinstance(v, VFn):
            return ("fn", v.callee["def"])
        if isinstance(v, VSymEnum):
            return ("symenum", v.adt, canon_atom(v.disc))
        return ("?", repr(v))

    def seq(self, t):
        k = t[0]
        if k == "empty":
            return ("empty",)
        if k == "slice":
            buf, start, ln = t[1], t[2], t[3]
            if buf == BUF and start.is_const():
                tot = start + ln
                if tot == Lin.atom(NLEN):
                    return ("rest", start.c)
            return ("slice", buf if not isinstance(buf, tuple) else tuple(buf), canon_lin(start), canon_lin(ln))
        if k == "concat":
            return ("concat", self.seq(t[1]), self.seq(t[2]))
        if k == "sym":
            return ("sym", t[1])
        if k == "zeros":
            return ("zeros", canon_lin(t[1]), t[2])
        return t

    def strterm(self, st, t):
        k = t[0]
        if k == "cstr":
            return ("cstr", t[1].decode("latin1"))
        if k in ("trim_start", "trim_end", "trim"):
            return (k, self.strterm(st, t[1]))
        if k in ("trim_end_matches", "trim_start_matches", "trim_matches"):
            return (k, self.strterm(st, t[1]), t[2])
        if k == "utf8":
            return ("utf8", self.keyterm(t[1]))
        if k == "substr":
            return ("substr", self.strterm(st, t[1]), self.keylin(t[2]), self.keylin(t[3]))
        return t

    def keyterm(self, k):
        """canonical form of a valkey() of a list / elems of leaf applications over bit groups"""
        if k[0] == "list":
            items = k[2:]
            return ("list", tuple(self.keyval(x) for x in items))
        if k[0] == "elems":
            _, buf, pos, kk, n, elem, cap = k
            return ("elems", pos, kk, self.keylin(n), self.keyval(elem))
        if k[0] == "slice":
            return ("slice", k[1], self.keylin(k[2]), self.keylin(k[3]))
        if k[0] == "seq":
            return ("seq", k[1])
        return k

    def keylin(self, lk):
        # ('lin', terms, c)
        terms, c = lk[1], lk[2]
        if not terms:
            return ("const", c)
        if len(terms) == 1 and terms[0][1] == 1 and c == 0:
            return canon_atom(terms[0][0])
        return ("lin", tuple((canon_atom(a), k) for a, k in terms), c)

    def keyval(self, k):
        if k[0] == "int":
            return self.keylin(k[3])
        if k[0] == "app":
            return ("app", k[1], tuple(self.keyval(a) for a in k[3:]), k[2])
        return k

    def cond(self, c):
        if c is True or c is False:
            return c
        if c[0] == "in":
            return ("in", canon_atom(c[1]), c[2].iv)
        if c[0] == "le0":
            return ("le0", canon_lin(c[1]))
        if c[0] == "not":
            return ("not", self.cond(c[1]))
        if c[0] in ("and", "or"):
            return (c[0], self.cond(c[1]), self.cond(c[2]))
        return c

    def fterm(self, t):
        k = t[0]
        if k == "fc":
            return ("fc", t[1])
        if k == "i2f":
            return ("i2f", self.keylin(t[1]), t[2], t[3])
        if k in ("fadd", "fsub", "fmul", "fdiv"):
            return (k, self.fterm(t[1]), self.fterm(t[2]))
        if k == "fneg":
            return (k, self.fterm(t[1]))
        return t

    def guard(self, st):
        g = {}
        for a, s in st.pc.sets.items():
            g[canon_atom(a)] = s
        return g, [canon_lin(f) for f in st.pc.facts], dict(st.pc.opq)


# ------------------------------------------------------------------------------------------------

class Outcome:
    """one partition of messages::parse: guard -> Ok(variant, struct, fields) | Err"""

    def __init__(self, guard, facts, opq, ok, term, reads, st=None):
        self.guard, self.facts, self.opq, self.ok, self.term, self.reads = guard, facts, opq, ok, term, reads
        self.st = st

    def nset(self):
        return self.guard.get(("len", BUF), IntSet.range(0, MAXLEN))

    def tset(self):
        return self.guard.get(("bits", 0, 6), IntSet.range(0, 63))


def extract_layouts(facts, types=None, budget=20000):
    """run messages::parse on a symbolic payload; -> (Interp, [Outcome])"""
    I = Interp(facts, xform.EXT, budget=budget)
    st = St()
    if types is not None:
        st.pc.sets[("bits", BUF, 0, 6)] = types
    root = facts.bodies[facts.crate + "::messages::parse"]
    buf = VSlice(BUF, Lin.const(0), Lin.atom(NLEN))
    outs = I.exec_fn(st, root, [buf])
    C = Canon(facts)
    res = []
    for s2, rv in outs:
        g, fa, opq = C.guard(s2)
        reads = [e for e in s2.events if e[0] in ("take", "take_n", "take_eof")]
        if isinstance(rv, VAdt) and rv.adt == RESULT:
            ok = rv.variant == 0
            res.append(Outcome(g, fa, opq, ok, C.val(s2, rv.fields[0]), reads, s2))
        else:
            raise Unanalysable("messages::parse returned %r" % (rv,))
    return I, res
