"""Grammar extraction: from the byte-level parse events of one successful path of
parse_nmea_sentence to a list of elements with length bounds, and to an NFA fragment."""
from __future__ import annotations
from .domains import IntSet, Lin, INF
from .automata import NFA, Frag, ALL, DIGITS, HEX
from .interp import Unanalysable, MAXLEN

LINE = "L"


class Elem:
    def __init__(self, kind, param, start, end, const_len=None):
        self.kind, self.param, self.start, self.end = kind, param, start, end
        self.const_len = const_len
        self.lo, self.hi = (const_len, const_len) if const_len is not None else (0, None)
        self.values = None      # numeric side condition (IntSet) for digit / hex runs
        self.role = None

    def __repr__(self):
        return "%s(%r)[%s..%s]%s" % (self.kind, self.param, self.lo, self.hi, "" if self.values is None else " in %r" % (self.values,))

    def sig(self):
        sub = getattr(self, "sub", None)
        return (self.kind, self.param if not isinstance(self.param, (bytes, bytearray)) else bytes(self.param), self.lo, self.hi,
                None if self.values is None else self.values.iv,
                None if getattr(self, "first", None) is None else self.first.iv,
                None if not sub else (tuple(x.sig() for x in sub), getattr(self, "sub_full", False)))


def _chain_from(events, cur):
    chain, side = [], []
    for e in events:
        tag, kind, param, buf, start, end = e
        if tag == "g" and buf == LINE and start == cur:
            d = end - start
            chain.append(Elem(kind, param, start, end, d.c if d.is_const() else None))
            cur = end
        else:
            side.append(e)
    return chain, side, cur


def main_chain(st):
    """the consuming events applied one after the other from position 0 of the line; byte parsers
    applied to a *captured* slice (a sub-parse starting where a main-chain element starts) become the
    sub-chain of that element"""
    evs = [e for e in st.events if e[0] in ("g", "gp")]
    chain, side, cur = _chain_from(evs, Lin.const(0))
    # attach sub-chains (one level, which may itself carry sub-chains)
    def attach(chain, side):
        i = 0
        while i < len(chain):
            el = chain[i]
            if not side:
                break
            if el.kind in ("take_until", "take", "run") and any(e[0] == "g" and e[3] == LINE and e[4] == el.start for e in side):
                sub, side2, end = _chain_from(side, el.start)
                if sub:
                    if st.decide(("le0", end - el.end)) is True:
                        # the captured slice is parsed again
                        el.sub = sub
                        el.sub_end = end
                        side = attach(sub, side2)
                    elif i == len(chain) - 1:
                        # the parse continues from where the capture started and goes beyond its end:
                        # the capture was only looked at (`let (_, raw) = take_until(..)(data)?`), like peek
                        chain[i:] = sub
                        side = [("gp", el.kind, el.param, LINE, el.start, el.end)] + list(side2)
                        nonlocal_cur[0] = end
                        continue
                    else:
                        raise Unanalysable("input re-parsed from the start of an earlier element")
            i += 1
        return side
    nonlocal_cur = [cur]
    side = attach(chain, side)
    return chain, side, nonlocal_cur[0]


def flatten_chain(chain):
    """main chain with captured-and-parsed elements replaced by their sub-chains (for role assignment)"""
    out = []
    for el in chain:
        sub = getattr(el, "sub", None)
        # only structural sub-parses (containing delimiters) are expanded; a peek at the first byte of
        # a field (opt(anychar) on the channel) leaves the field atomic
        if sub and any(x.kind == "tag" for x in sub):
            out += flatten_chain(sub)
            if not getattr(el, "sub_full", False):
                out.append(Elem("remainder", el.param, el.sub_end, el.end))
        else:
            out.append(el)
    return out


def analyse_path(st):
    """-> (elements, side events) with length bounds and numeric side conditions filled in from the
    path condition.  Raises Unanalysable when a fact cannot be expressed per element."""
    chain, side, endpos = main_chain(st)
    # length variables: one per variable-length element (of the main chain and of every sub-chain);
    # position atoms -> Lin over them
    lenvar = {}
    posmap = {}       # position atom -> Lin over ('elen', id) atoms
    elems_by_id = {}
    counter = [0]

    def lay_out(ch, acc):
        """assign length variables along a chain starting at accumulated position `acc`"""
        for el in ch:
            start_acc = acc
            if el.const_len is not None:
                acc = acc + el.const_len
            else:
                counter[0] += 1
                i = counter[0]
                lv = ("elen", i, 0, MAXLEN)
                lenvar[i] = lv
                elems_by_id[i] = el
                el.len_id = i
                acc = acc + Lin.atom(lv)
                sa = el.end.single_atom()
                if not sa or sa[1] != 1 or sa[2] != 0:
                    raise Unanalysable("element end is not a fresh position: %r" % (el.end,))
                posmap[sa[0]] = acc
            sub = getattr(el, "sub", None)
            if sub:
                lay_out(sub, start_acc)
        return acc
    acc = lay_out(chain, Lin.const(0))
    # sub-chains: was the captured slice required to be consumed completely?
    def mark_subs(ch):
        for el in ch:
            sub = getattr(el, "sub", None)
            if sub:
                el.sub_full = st.decide(("le0", el.end - el.sub_end)) is True
                for e2 in sub:
                    if e2.kind == "digit1":
                        e2.lo = 1
                    if e2.kind == "hex_u32":
                        raise Unanalysable("hexadecimal run inside a sub-parse of a captured slice")
                mark_subs(sub)
    mark_subs(chain)
    tail = ("elen", "tail", 0, MAXLEN)
    total = acc + Lin.atom(tail)
    posmap[("len", LINE)] = total

    def rewrite(lin):
        out = Lin.const(lin.c)
        for a, k in lin.terms:
            if a in posmap:
                out = out + posmap[a].scale(k)
            else:
                return None
        return out
    bounds = {i: [0, None] for i in lenvar}
    # intrinsic bounds
    for i, el in elems_by_id.items():
        if el.kind in ("digit1", "hex_u32"):
            bounds[i][0] = 1
            if el.kind == "hex_u32":
                bounds[i][1] = el.param
        if el.kind == "run":
            bounds[i][0], bounds[i][1] = el.param[1], el.param[2]
    unresolved = []
    for f in st.pc.facts:
        r = rewrite(f)
        if r is None:
            # facts about positions inside captured slices (sub-parses) or other buffers
            unresolved.append(f)
            continue
        vs = [(a, k) for a, k in r.terms]
        single = [(a, k) for a, k in vs if a != tail]
        if len(single) == 1 and all(a != tail or k <= 0 for a, k in vs):
            (a, k) = single[0]
            i = a[1]
            # k*len_i + c (+ negative tail) <= 0
            c = r.c
            if k > 0:
                ub = (-c) // k
                if any(a2 == tail for a2, _ in vs):
                    continue       # weakened by the tail: implied bound only when tail = 0; skip
                bounds[i][1] = ub if bounds[i][1] is None else min(bounds[i][1], ub)
            else:
                lb = -((-c) // (-k)) if False else -(-c // -k) if False else None
                # -|k|*len + c <= 0  <=> len >= c/|k|
                kk = -k
                lb = -((-c) // kk)
                if not any(a2 == tail for a2, _ in vs):
                    bounds[i][0] = max(bounds[i][0], lb)
            continue
        # multi-variable fact: must be implied by the bounds (input-exhaustion checks)
        mx = r.c
        okk = True
        for a, k in vs:
            lo, hi = (0, None) if a == tail else bounds[a[1]]
            if k > 0:
                if hi is None:
                    okk = False
                    break
                mx += k * hi
            else:
                mx += k * lo
        if not okk or mx > 0:
            unresolved.append(f)
    # a second pass for multi-variable facts now that bounds are known is not needed: record them
    for i, el in elems_by_id.items():
        el.lo, el.hi = bounds[i]
    # numeric side conditions
    # (value sets come from the verify predicates only: later comparisons of the parsed numbers
    #  by the reassembly logic are not part of the sentence grammar)
    verified = {}
    byte_first = {}     # position (Lin key) -> allowed byte values, from predicates on a few bits of one byte
    for e in st.events:
        if e[0] == "verify" and e[2] is True:
            vk = e[1]
            handled = False
            if e[3] is not None and vk[0] == "int" and vk[3][0] == "lin" and len(vk[3][1]) == 1 and vk[3][1][0][1] == 1 and vk[3][2] == 0:
                a = vk[3][1][0][0]
                if a[0] in ("parsed", "hexval", "byte"):
                    verified[a] = e[3] if a not in verified else verified[a].intersect(e[3])
                    handled = True
                elif a[0] == "bits" and a[1] == LINE:
                    pos, nb = a[2], a[3]
                    pl = Lin.const(pos) if isinstance(pos, int) else Lin(pos[1], pos[2])
                    if all(k % 8 == 0 for _, k in pl.terms) and (pl.c % 8) + nb <= 8:
                        o = pl.c % 8
                        P = Lin(tuple((t, k // 8) for t, k in pl.terms), pl.c // 8)
                        ok_bytes = IntSet.of(*[b for b in range(256) if e[3].contains((b >> (8 - o - nb)) & ((1 << nb) - 1))])
                        cur = byte_first.get(P.key())
                        byte_first[P.key()] = (P, ok_bytes if cur is None else cur[1].intersect(ok_bytes))
                        handled = True
            if not handled:
                raise Unanalysable("acceptance depends on a verify() predicate over a value the sentence grammar cannot express: %r" % (vk,))
    def all_elems(ch):
        for el in ch:
            yield el
            if getattr(el, "sub", None):
                for x in all_elems(el.sub):
                    yield x
    for el in all_elems(chain):
        k = el.start.key()
        if k in byte_first:
            cur = getattr(el, "first", None)
            el.first = byte_first[k][1] if cur is None else cur.intersect(byte_first[k][1])
    placed = set(el.start.key() for el in all_elems(chain) if getattr(el, "first", None) is not None)
    for k in byte_first:
        if k not in placed:
            raise Unanalysable("a predicate restricts a byte in the middle of a grammar element (position %r)" % (byte_first[k][0],))
    for i, el in enumerate(all_elems(chain)):
        if el.kind == "digit1":
            term = ("utf8", ("slice", LINE, el.start.key(), (el.end - el.start).key()))
            ok = st.pc.opq.get(("from_str_ok", term, 8))
            if ok is True:
                el.values = verified.get(("parsed", term, 8, 0, 255), IntSet.range(0, 255))
            el.parsed_u8 = ok
        if el.kind == "hex_u32":
            a = ("hexval", LINE, el.start.key(), 0, (1 << 32) - 1)
            el.values = verified.get(a, IntSet.range(0, (1 << 32) - 1))
        if el.kind == "anychar":
            # a verify() predicate on the character restricts the byte
            el.values = verified.get(("byte", LINE, el.start.key()))
    return chain, side, unresolved


def filtered_copy(f, src, frag, allowed):
    """copy fragment `frag` of NFA `src` into f.a with every edge label intersected with `allowed`"""
    m = {}

    def st_(x):
        if x not in m:
            m[x] = f.a.new()
        return m[x]
    seen = set()
    stack = [frag[0]]
    while stack:
        x = stack.pop()
        if x in seen:
            continue
        seen.add(x)
        for y in src.eps.get(x, ()):
            f.a.add_eps(st_(x), st_(y))
            stack.append(y)
        for (bs, y) in src.edges.get(x, ()):
            lab = bs & allowed
            if lab:
                f.a.add(st_(x), lab, st_(y))
            stack.append(y)
    return st_(frag[0]), st_(frag[1])


def product_copy(f, n1, fr1, n2, fr2):
    """intersection of two fragments (of two scratch NFAs) built into f.a"""
    def closure(n, x):
        out, stack = {x}, [x]
        while stack:
            y = stack.pop()
            for z in n.eps.get(y, ()):
                if z not in out:
                    out.add(z)
                    stack.append(z)
        return out
    m = {}

    def st_(k):
        if k not in m:
            m[k] = f.a.new()
        return m[k]
    end = f.a.new()
    start = (fr1[0], fr2[0])
    seen, stack = set(), [start]
    while stack:
        k = stack.pop()
        if k in seen:
            continue
        seen.add(k)
        c1, c2 = closure(n1, k[0]), closure(n2, k[1])
        if fr1[1] in c1 and fr2[1] in c2:
            f.a.add_eps(st_(k), end)
        for x in c1:
            for (b1, y1) in n1.edges.get(x, ()):
                for z in c2:
                    for (b2, y2) in n2.edges.get(z, ()):
                        lab = b1 & b2
                        if lab:
                            f.a.add(st_(k), lab, st_((y1, y2)))
                            stack.append((y1, y2))
    return st_(start), end


def path_fragment(f, chain, in_sub=False):
    """NFA fragment of one success path; take_until elements must be followed by their delimiter"""
    frs = []
    for i, el in enumerate(chain):
        k = el.kind
        sub = getattr(el, "sub", None)
        if sub and k in ("take_until", "take") and getattr(el, "first", None) is not None:
            raise Unanalysable("first-byte predicate on a capture that is parsed again")
        if sub and k in ("take_until", "take"):
            # a captured slice that is parsed again: (sub-chain . rest) within the capture's own class
            if k == "take_until":
                nxt = chain[i + 1] if i + 1 < len(chain) else None
                if nxt is None or nxt.kind != "tag" or nxt.param[:1] != el.param:
                    raise Unanalysable("take_until(%r) not followed by its delimiter" % (el.param,))
                allowed = frozenset(ALL - set(el.param))
            else:
                allowed = frozenset(ALL)
            tmp = NFA()
            tf = Frag(tmp)
            subfr = path_fragment(tf, sub, True)
            if not el.sub_full:
                subfr = tf.seq(subfr, tf.star(ALL))
            if el.hi is not None or el.lo:
                # the capture's own length bounds: intersect with class{lo,hi}
                tmp2 = NFA()
                tf2 = Frag(tmp2)
                bound = tf2.repeat(allowed, el.lo, el.hi)
                frs.append(product_copy(f, tmp, subfr, tmp2, bound))
            else:
                frs.append(filtered_copy(f, tmp, subfr, allowed))
            continue
        first = getattr(el, "first", None)
        if first is not None:
            fb = frozenset(first.values())
            if k == "take_until" and len(el.param) == 1:
                nxt = chain[i + 1] if i + 1 < len(chain) else None
                if nxt is None or nxt.kind != "tag" or nxt.param[:1] != el.param:
                    raise Unanalysable("take_until(%r) not followed by its delimiter" % (el.param,))
                allowed = frozenset(ALL - set(el.param))
                frs.append(f.seq(f.cls(fb & allowed), f.repeat(allowed, max(el.lo - 1, 0), None if el.hi is None else el.hi - 1)))
            elif k == "take" and el.param >= 1:
                frs.append(f.seq(f.cls(fb), f.repeat(ALL, el.param - 1, el.param - 1)))
            elif k == "anychar":
                vs = fb if el.values is None else fb & frozenset(el.values.values())
                frs.append(f.cls(vs))
            else:
                raise Unanalysable("first-byte predicate on a %s element" % k)
            continue
        if k == "tag":
            frs.append(f.lit(el.param))
        elif k == "take":
            frs.append(f.repeat(ALL, el.param, el.param))
        elif k == "take_until":
            delim = el.param
            if len(delim) != 1:
                raise Unanalysable("take_until with a multi-byte delimiter")
            nxt = chain[i + 1] if i + 1 < len(chain) else None
            if nxt is None or nxt.kind != "tag" or nxt.param[:1] != delim:
                raise Unanalysable("take_until(%r) not followed by its delimiter" % (delim,))
            frs.append(f.repeat(ALL - set(delim), el.lo, el.hi))
        elif k == "digit1":
            if el.values is not None:
                frs.append(f.dec_value_in(el.values.intersect(IntSet.range(0, 255)).values()))
            else:
                frs.append(f.repeat(DIGITS, el.lo, el.hi))
        elif k == "hex_u32":
            if el.values.max() > 0xffff:
                raise Unanalysable("hex value not bounded (<= 0xffff) by the verify predicate")
            frs.append(f.hex_run_value_in(el.values.intersect(IntSet.range(0, 0xffff)).values(), el.param))
        elif k == "anychar":
            if el.values is not None:
                frs.append(f.cls(frozenset(el.values.intersect(IntSet.range(0, 255)).values())))
            else:
                frs.append(f.repeat(ALL, 1, 1))
        elif k == "run":
            frs.append(f.repeat(frozenset(IntSet(el.param[0]).values()), el.lo, el.hi))
        else:
            raise Unanalysable("grammar element " + k)
    return f.seq(*frs)
