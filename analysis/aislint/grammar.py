"""Grammar extraction: from the byte-level parse events of one successful path of
parse_nmea_sentence to a list of elements with length bounds, and to an NFA fragment."""
from __future__ import annotations
from .domains import IntSet, Lin, INF
from .automata import NFA, Frag, ALL, DIGITS, HEX
from .interp import Unanalysable, MAXLEN

LINE = "L"


class Elem:
    def __init__(self, kind, param, start, end, const_len=None):
        self.kind, self.param, self.start, self.end = kind, param, start, end
        self.const_len = const_len
        self.lo, self.hi = (const_len, const_len) if const_len is not None else (0, None)
        self.values = None      # numeric side condition (IntSet) for digit / hex runs
        self.role = None

    def __repr__(self):
        return "%s(%r)[%s..%s]%s" % (self.kind, self.param, self.lo, self.hi, "" if self.values is None else " in %r" % (self.values,))

    def sig(self):
        return (self.kind, self.param if not isinstance(self.param, (bytes, bytearray)) else bytes(self.param), self.lo, self.hi,
                None if self.values is None else self.values.iv)


def main_chain(st):
    """the consuming events applied one after the other from position 0 of the line"""
    cur = Lin.const(0)
    chain = []
    side = []
    for e in st.events:
        if e[0] not in ("g", "gp"):
            continue
        tag, kind, param, buf, start, end = e
        if tag == "g" and buf == LINE and start == cur:
            d = end - start
            chain.append(Elem(kind, param, start, end, d.c if d.is_const() else None))
            cur = end
        else:
            side.append(e)
    return chain, side, cur


def analyse_path(st):
    """-> (elements, side events) with length bounds and numeric side conditions filled in from the
    path condition.  Raises Unanalysable when a fact cannot be expressed per element."""
    chain, side, endpos = main_chain(st)
    # length variables: one per variable-length element; position atoms -> Lin over them
    lenvar = {}
    posmap = {}       # position atom -> Lin over ('len', i) atoms
    acc = Lin.const(0)
    for i, el in enumerate(chain):
        if el.const_len is not None:
            acc = acc + el.const_len
        else:
            lv = ("elen", i, 0, MAXLEN)
            lenvar[i] = lv
            acc = acc + Lin.atom(lv)
            sa = el.end.single_atom()
            if not sa or sa[1] != 1 or sa[2] != 0:
                raise Unanalysable("element end is not a fresh position: %r" % (el.end,))
            posmap[sa[0]] = acc
        # consistency: the element's start must be what we accumulated before it
    tail = ("elen", "tail", 0, MAXLEN)
    total = acc + Lin.atom(tail)
    posmap[("len", LINE)] = total

    def rewrite(lin):
        out = Lin.const(lin.c)
        for a, k in lin.terms:
            if a in posmap:
                out = out + posmap[a].scale(k)
            else:
                return None
        return out
    bounds = {i: [0, None] for i in lenvar}
    # intrinsic bounds
    for i, el in enumerate(chain):
        if el.kind in ("digit1", "hex_u32"):
            bounds[i][0] = 1
            if el.kind == "hex_u32":
                bounds[i][1] = el.param
    unresolved = []
    for f in st.pc.facts:
        r = rewrite(f)
        if r is None:
            # facts about positions inside captured slices (sub-parses) or other buffers
            unresolved.append(f)
            continue
        vs = [(a, k) for a, k in r.terms]
        single = [(a, k) for a, k in vs if a != tail]
        if len(single) == 1 and all(a != tail or k <= 0 for a, k in vs):
            (a, k) = single[0]
            i = a[1]
            # k*len_i + c (+ negative tail) <= 0
            c = r.c
            if k > 0:
                ub = (-c) // k
                if any(a2 == tail for a2, _ in vs):
                    continue       # weakened by the tail: implied bound only when tail = 0; skip
                bounds[i][1] = ub if bounds[i][1] is None else min(bounds[i][1], ub)
            else:
                lb = -((-c) // (-k)) if False else -(-c // -k) if False else None
                # -|k|*len + c <= 0  <=> len >= c/|k|
                kk = -k
                lb = -((-c) // kk)
                if not any(a2 == tail for a2, _ in vs):
                    bounds[i][0] = max(bounds[i][0], lb)
            continue
        # multi-variable fact: must be implied by the bounds (input-exhaustion checks)
        mx = r.c
        okk = True
        for a, k in vs:
            lo, hi = (0, None) if a == tail else bounds[a[1]]
            if k > 0:
                if hi is None:
                    okk = False
                    break
                mx += k * hi
            else:
                mx += k * lo
        if not okk or mx > 0:
            unresolved.append(f)
    # a second pass for multi-variable facts now that bounds are known is not needed: record them
    for i, el in enumerate(chain):
        if i in bounds:
            el.lo, el.hi = bounds[i]
    # numeric side conditions
    # (value sets come from the verify predicates only: later comparisons of the parsed numbers
    #  by the reassembly logic are not part of the sentence grammar)
    verified = {}
    for e in st.events:
        if e[0] == "verify" and e[2] is True and e[3] is not None:
            vk = e[1]
            if vk[0] == "int" and vk[3][0] == "lin" and len(vk[3][1]) == 1:
                verified[vk[3][1][0][0]] = e[3]
    for i, el in enumerate(chain):
        if el.kind == "digit1":
            term = ("utf8", ("slice", LINE, el.start.key(), (el.end - el.start).key()))
            ok = st.pc.opq.get(("from_str_ok", term, 8))
            if ok is True:
                el.values = verified.get(("parsed", term, 8, 0, 255), IntSet.range(0, 255))
            el.parsed_u8 = ok
        if el.kind == "hex_u32":
            a = ("hexval", LINE, el.start.key(), 0, (1 << 32) - 1)
            el.values = verified.get(a, IntSet.range(0, (1 << 32) - 1))
    return chain, side, unresolved


def path_fragment(f, chain):
    """NFA fragment of one success path; take_until elements must be followed by their delimiter"""
    frs = []
    for i, el in enumerate(chain):
        k = el.kind
        if k == "tag":
            frs.append(f.lit(el.param))
        elif k == "take":
            frs.append(f.repeat(ALL, el.param, el.param))
        elif k == "take_until":
            delim = el.param
            if len(delim) != 1:
                raise Unanalysable("take_until with a multi-byte delimiter")
            nxt = chain[i + 1] if i + 1 < len(chain) else None
            if nxt is None or nxt.kind != "tag" or nxt.param[:1] != delim:
                raise Unanalysable("take_until(%r) not followed by its delimiter" % (delim,))
            frs.append(f.repeat(ALL - set(delim), el.lo, el.hi))
        elif k == "digit1":
            if el.values is not None:
                frs.append(f.dec_value_in(el.values.intersect(IntSet.range(0, 255)).values()))
            else:
                frs.append(f.repeat(DIGITS, el.lo, el.hi))
        elif k == "hex_u32":
            if el.values.max() > 0xffff:
                raise Unanalysable("hex value not bounded (<= 0xffff) by the verify predicate")
            frs.append(f.hex_run_value_in(el.values.intersect(IntSet.range(0, 0xffff)).values(), el.param))
        elif k == "anychar":
            frs.append(f.repeat(ALL, 1, 1))
        else:
            raise Unanalysable("grammar element " + k)
    return f.seq(*frs)
