"""Reference sentence language of C08 (and the field positions of C07), as an NFA built from the
statement of the property - independent of the code under analysis."""
from ..automata import NFA, Frag, ALL, HEX

BS, BANG, DOLLAR, COMMA, STAR = 92, 33, 36, 44, 42


def reference_nfa(max_payload=None):
    a = NFA()
    f = Frag(a)
    tagblock = f.opt(f.seq(f.lit([BS]), f.star(ALL - {BS}), f.lit([BS])))
    start = f.cls({BANG, DOLLAR})
    addr = f.repeat(ALL, 5, 5)
    u8 = lambda: f.dec_value_in(range(256))
    idopt = f.opt(u8())
    channel = f.star(ALL - {COMMA})
    payload = f.repeat(ALL - {COMMA}, 1, max_payload)
    fill = f.dec_value_in(range(6))
    hexr = f.hex_run_value_in(range(256), 8)
    c = lambda: f.lit([COMMA])
    fr = f.seq(tagblock, start, addr, c(), u8(), c(), u8(), c(), idopt, c(), channel, c(), payload, c(), fill, f.lit([STAR]), hexr)
    return a, fr[0], {fr[1]}


# C07: which grammar element each sentence field is taken from (element roles, in order)
ROLES = ["tagblock?", "start", "talker", "report", ",", "num_fragments", ",", "fragment_number", ",", "message_id?", ",",
         "channel", ",", "payload", ",", "fill", "*", "checksum"]

TALKERS = {b"AB": "AB", b"AD": "AD", b"AI": "AI", b"AN": "AN", b"AR": "AR", b"AS": "AS", b"AT": "AT", b"AX": "AX", b"BS": "BS", b"SA": "SA"}
REPORTS = {b"VDM": "VDM", b"VDO": "VDO"}
