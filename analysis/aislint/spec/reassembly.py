"""Reference reassembly machine (C05, C06, C17), written from the three property statements.

State: (sid, s, D) = sequence id of the open group, number of the last accepted fragment (0 = no
open group), accumulated payload.  Input: an accepted sentence (n = fragment count, k = fragment
number, id, payload P, decode flag).  Output labels use the vocabulary of rules/fsm.py.

    k < n  (more to come):  if k == 1: (sid, s, D) := (id, 0, [])
                             require sid == id and k == s + 1, else Err, state as it was*
                             s := k; D := D ++ P;   Incomplete(sentence as parsed, data = P)
    k >= n, n != 1:          require sid == id and k == s + 1, else Err, state unchanged
                             delivered := D ++ P; (s, D) := (0, []); decode if asked; Complete
    n == 1:                  delivered := P; state unchanged; decode if asked; Complete
    (* after the reset of a first fragment the requirement holds trivially)
    decoding failure (unarmor or message parse) -> Err with the state as for delivery.
"""
import numpy as np

# result codes
INCOMPLETE, COMPLETE, ERR_SEQ, ERR_DECODE = 1, 2, 3, 4


def reference(K, N, S, id_equal, decode, unarmor_ok, parse_ok):
    """numpy arrays K,N,S (broadcastable), scalars id_equal/decode/unarmor_ok/parse_ok
    -> dict of label arrays: result, post_sid ('sid'=0,'id'=1), post_s ('s'=0,'k'=1,'0'=2),
       post_D ('D'=0,'D+P'=1,'P'=2,'[]'=3), delivered (0 none, 1 'P', 2 'D+P')"""
    K, N, S = np.broadcast_arrays(K, N, S)
    more = K < N
    first = more & (K == 1)
    cont_ok = bool(id_equal) & (K == S + 1)
    shape = K.shape
    result = np.zeros(shape, dtype=np.int8)
    post_sid = np.zeros(shape, dtype=np.int8)
    post_s = np.zeros(shape, dtype=np.int8)
    post_D = np.zeros(shape, dtype=np.int8)
    delivered = np.zeros(shape, dtype=np.int8)
    # first fragment
    result[first] = INCOMPLETE
    post_sid[first] = 1
    post_s[first] = 1
    post_D[first] = 2
    delivered[first] = 1
    # later fragment, more to come
    mid = more & ~first
    ok = mid & cont_ok
    result[ok] = INCOMPLETE
    post_s[ok] = 1
    post_D[ok] = 1
    delivered[ok] = 1
    result[mid & ~cont_ok] = ERR_SEQ
    # last fragment of a group
    last = ~more & (N != 1)
    ok = last & cont_ok
    result[last & ~cont_ok] = ERR_SEQ
    fin = ok
    post_s[fin] = 2
    post_D[fin] = 3
    delivered[fin] = 2
    # unfragmented
    single = ~more & (N == 1)
    delivered[single] = 1
    done = fin | single
    if decode and not (unarmor_ok and parse_ok):
        result[done] = ERR_DECODE
        delivered[done] = 0
    else:
        result[done] = COMPLETE
    return {"result": result, "post_sid": post_sid, "post_s": post_s, "post_D": post_D, "delivered": delivered}
