"""Reference bit layouts of ITU-R M.1371-5 Annex 8 (messages 1-21, 24, 27), written from the
standard and keyed by the crate's *public* struct / field / variant names.  This is the oracle of
C04 (positions), and carries the per-field `kind` that routes a field to C10-C16.

Field spec syntax:  name:width[:kind]   '-' = spare (consumed, not exposed)
kinds: raw (default; the integer itself), flag (bool), enum (C12), opt:<sentinel> (C11),
       lon/lat/lon10/lat10 (C10+C11), scaled10 / scaled10opt:<sentinel> / unscaledopt:<s> (C10/C11),
       text (C13), comm (C16), data (C15)
"""

H = "message_type:6 repeat_indicator:2 mmsi:30"


def parse_fields(s, start=0):
    out = []
    off = start
    for tok in s.split():
        parts = tok.split(":")
        name, w = parts[0], int(parts[1])
        kind = ":".join(parts[2:]) if len(parts) > 2 else "raw"
        if name != "-":
            out.append((name, off, w, kind))
        else:
            out.append((None, off, w, "spare"))
        off += w
    return out, off


FIXED = {
    # struct name -> (message types, field string)
    "PositionReport": ((1, 2, 3), H + " navigation_status:4:enum rate_of_turn:8:opt:-128 speed_over_ground:10:scaled10opt:1023"
                       " position_accuracy:1:enum longitude:28:lon latitude:27:lat course_over_ground:12:scaled10opt:3600"
                       " true_heading:9:opt:511 timestamp:6 maneuver_indicator:2:enum -:3 raim:1:flag radio_status:19:comm"),
    "BaseStationReport": ((4,), H + " year:14:opt:0 month:4:opt:0 day:5:opt:0 hour:5 minute:6:opt:60 second:6:opt:60"
                          " fix_quality:1:enum longitude:28:lon latitude:27:lat epfd_type:4:enum -:10 raim:1:flag radio_status:19:comm"),
    "UtcDateResponse": ((11,), H + " year:14:opt:0 month:4:opt:0 day:5:opt:0 hour:5 minute:6:opt:60 second:6:opt:60"
                        " fix_quality:1:enum longitude:28:lon latitude:27:lat epfd_type:4:enum -:10 raim:1:flag radio_status:19:comm"),
    "SARPositionReport": ((9,), H + " altitude:12:opt:4095 speed_over_ground:10:unscaledopt:1023 position_accuracy:1:enum"
                          " longitude:28:lon latitude:27:lat course_over_ground:12:scaled10opt:3600 timestamp:6 -:8 dte:1:enum -:3"
                          " assigned_mode:1:enum raim:1:flag -:1 radio_status:19:comm"),
    "UtcDateInquiry": ((10,), H + " -:2 dest_mmsi:30 -:2"),
    "StandardClassBPositionReport": ((18,), H + " -:8 speed_over_ground:10:scaled10opt:1023 position_accuracy:1:enum longitude:28:lon"
                                     " latitude:27:lat course_over_ground:12:scaled10opt:3600 true_heading:9:opt:511 timestamp:6 -:2"
                                     " cs_unit:1:enum has_display:1:flag has_dsc:1:flag whole_band:1:flag accepts_message_22:1:flag"
                                     " assigned_mode:1:enum raim:1:flag -:1 radio_status:19:comm"),
    "ExtendedClassBPositionReport": ((19,), H + " -:8 speed_over_ground:10:scaled10opt:1023 position_accuracy:1:enum longitude:28:lon"
                                     " latitude:27:lat course_over_ground:12:scaled10opt:3600 true_heading:9:opt:511 timestamp:6 -:4"
                                     " name:120:text type_of_ship_and_cargo:8:enum dimension_to_bow:9 dimension_to_stern:9"
                                     " dimension_to_port:6 dimension_to_starboard:6 epfd_type:4:enum raim:1:flag dte:1:enum"
                                     " assigned_mode:1:enum -:4"),
    "AidToNavigationReport": ((21,), H + " aid_type:5:enum name:120:text accuracy:1:enum longitude:28:lon latitude:27:lat"
                              " dimension_to_bow:9 dimension_to_stern:9 dimension_to_port:6 dimension_to_starboard:6 epfd_type:4:enum"
                              " utc_second:6 off_position:1:flag regional_reserved:8 raim:1:flag virtual_aid:1:flag assigned_mode:1:flag -:1"),
    "LongRangeAisBroadcastMessage": ((27,), H + " position_accuracy:1:enum raim:1:flag navigation_status:4:enum longitude:18:lon10"
                                     " latitude:17:lat10 speed_over_ground:6:unscaledopt:63 course_over_ground:9:unscaledopt:511"
                                     " gnss_position_status:1:flag -:1"),
}

# message type -> AisMessage variant, struct (public names)
DISPATCH = {
    1: ("PositionReport", "PositionReport"), 2: ("PositionReport", "PositionReport"), 3: ("PositionReport", "PositionReport"),
    4: ("BaseStationReport", "BaseStationReport"),
    5: ("StaticAndVoyageRelatedData", "StaticAndVoyageRelatedData"),
    6: ("BinaryAddressedMessage", "BinaryAddressedMessage"),
    7: ("BinaryAcknowledgeMessage", "BinaryAcknowledge"),
    8: ("BinaryBroadcastMessage", "BinaryBroadcastMessage"),
    9: ("StandardAircraftPositionReport", "SARPositionReport"),
    10: ("UtcDateInquiry", "UtcDateInquiry"),
    11: ("UtcDateResponse", "UtcDateResponse"),
    12: ("AddressedSafetyRelatedMessage", "AddressedSafetyRelatedMessage"),
    13: ("SafetyRelatedAcknowledgment", "SafetyRelatedAcknowledge"),
    14: ("SafetyRelatedBroadcastMessage", "SafetyRelatedBroadcastMessage"),
    15: ("Interrogation", "Interrogation"),
    16: ("AssignmentModeCommand", "AssignmentModeCommand"),
    17: ("DgnssBroadcastBinaryMessage", "DgnssBroadcastBinaryMessage"),
    18: ("StandardClassBPositionReport", "StandardClassBPositionReport"),
    19: ("ExtendedClassBPositionReport", "ExtendedClassBPositionReport"),
    20: ("DataLinkManagementMessage", "DataLinkManagementMessage"),
    21: ("AidToNavigationReport", "AidToNavigationReport"),
    24: ("StaticDataReport", "StaticDataReport"),
    27: ("LongRangeAisBroadcastMessage", "LongRangeAisBroadcastMessage"),
}

TYPE5_HEAD = (H + " ais_version:2 imo_number:30 callsign:42:text vessel_name:120:text ship_type:8:enum dimension_to_bow:9"
              " dimension_to_stern:9 dimension_to_port:6 dimension_to_starboard:6 epfd_type:4:enum eta_month_utc:4:opt:0"
              " eta_day_utc:5:opt:0 eta_hour_utc:5 eta_minute_utc:6:opt:60 draught:8:scaled10")   # ends at bit 302

TYPE6_HEAD = H + " seqno:2 dest_mmsi:30 retransmit:1:flag -:1 dac:10 fid:6"      # data from byte 11
TYPE8_HEAD = H + " -:2 dac:10 fid:6"                                            # data from byte 7
TYPE12_HEAD = H + " seqno:2 dest_mmsi:30 retransmit:1:flag -:1"                  # text from bit 72
TYPE14_HEAD = H + " -:2"                                                        # text from bit 40
TYPE16_HEAD = H + " -:2 mmsi1:30 offset1:12 increment1:10"                      # bit 92
TYPE16_SECOND = "mmsi2:30 offset2:12 increment2:10"                             # 92..143
TYPE17_HEAD = H + " -:2 longitude:18:lon10 latitude:17:lat10 -:5"               # bit 80
TYPE17_PAYLOAD = "message_type:6 station_id:10 z_count:13 sequence_number:3 n:5 health:3"   # 80..119, data from byte 15
TYPE24_B = ("ship_type:8:enum vendor_id:18:text unit_model_code:4 serial_number:20 callsign:42:text dimension_to_bow:9"
            " dimension_to_stern:9 dimension_to_port:6 dimension_to_starboard:6 -:6")     # from bit 40; model_serial: text 24 bits @66


def expected_fields(struct, shape):
    """-> dict path -> (off, w, kind) for an Ok outcome of `struct`, or None if the struct is unknown.

    `shape` describes the variable parts of the outcome as reported by the extractor:
      acks / reservations: number of list elements
      type 15: stations = [n_messages_station0, n_messages_station1?], offsets present per message
      type 16: second: bool;  type 24: part 'PartA' | 'PartB' | 'Unknown'
      type 5: dest_chars, dte_present;  types 12/14: text length is symbolic
    """
    exp = {}

    def add(fields, prefix=""):
        for (name, off, w, kind) in fields:
            if name is not None:
                exp[prefix + name] = (off, w, kind)
    if struct in FIXED:
        fs, _ = parse_fields(FIXED[struct][1])
        add(fs)
        return exp
    if struct == "StaticAndVoyageRelatedData":
        fs, end = parse_fields(TYPE5_HEAD)
        assert end == 302
        add(fs)
        n = shape["dest_chars"]
        exp["destination"] = (302, 6 * n if isinstance(n, int) else n, "text")
        if shape["dte_present"]:
            exp["dte"] = (302 + 6 * n, 1, "enum")
        else:
            exp["dte"] = (None, 0, "default:NotReady")
        return exp
    if struct == "BinaryAddressedMessage":
        fs, end = parse_fields(TYPE6_HEAD)
        assert end == 88
        add(fs)
        exp["data"] = (88, None, "data")
        return exp
    if struct == "BinaryBroadcastMessage":
        fs, end = parse_fields(TYPE8_HEAD)
        assert end == 56
        add(fs)
        exp["data"] = (56, None, "data")
        return exp
    if struct in ("BinaryAcknowledge", "SafetyRelatedAcknowledge"):
        fs, end = parse_fields(H + " -:2")
        add(fs)
        for j in range(shape["acks"]):
            exp["acks[%d].mmsi" % j] = (40 + 32 * j, 30, "raw")
            exp["acks[%d].seq_num" % j] = (70 + 32 * j, 2, "raw")
        return exp
    if struct == "DataLinkManagementMessage":
        fs, end = parse_fields(H + " -:2")
        add(fs)
        for j in range(shape["reservations"]):
            b = 40 + 30 * j
            exp["reservations[%d].offset" % j] = (b, 12, "raw")
            exp["reservations[%d].num_slots" % j] = (b + 12, 4, "raw")
            exp["reservations[%d].timeout" % j] = (b + 16, 3, "raw")
            exp["reservations[%d].increment" % j] = (b + 19, 11, "raw")
        return exp
    if struct == "AddressedSafetyRelatedMessage":
        fs, end = parse_fields(TYPE12_HEAD)
        assert end == 72
        add(fs)
        exp["text"] = (72, "rest6", "text")
        return exp
    if struct == "SafetyRelatedBroadcastMessage":
        fs, end = parse_fields(TYPE14_HEAD)
        assert end == 40
        add(fs)
        exp["text"] = (40, "rest6", "text")
        return exp
    if struct == "AssignmentModeCommand":
        fs, end = parse_fields(TYPE16_HEAD)
        assert end == 92
        add(fs)
        if shape["second"]:
            f2, _ = parse_fields(TYPE16_SECOND, 92)
            for (name, off, w, kind) in f2:
                exp[name] = (off, w, "optsome")
        else:
            for name in ("mmsi2", "offset2", "increment2"):
                exp[name] = (None, 0, "absent")
        return exp
    if struct == "DgnssBroadcastBinaryMessage":
        fs, end = parse_fields(TYPE17_HEAD)
        assert end == 80
        add(fs)
        f2, end2 = parse_fields(TYPE17_PAYLOAD, 80)
        assert end2 == 120
        add(f2, "payload.")
        exp["payload.data"] = (120, None, "data")
        return exp
    if struct == "StaticDataReport":
        fs, end = parse_fields(H)
        add(fs)
        part = shape["part"]
        if part == "PartA":
            exp["message_part#PartA.vessel_name"] = (40, 120, "text")
        elif part == "PartB":
            f2, end2 = parse_fields(TYPE24_B, 40)
            assert end2 == 168
            add(f2, "message_part#PartB.")
            exp["message_part#PartB.model_serial"] = (66, 24, "text")
        else:
            exp["message_part#Unknown.0"] = (38, 2, "raw")
        return exp
    if struct == "Interrogation":
        fs, end = parse_fields(H + " -:2")
        add(fs)
        # ITU-R M.1371-5 table for message 15: dest1 40-69, msg1.1 70-75, offset1.1 76-87, spare 88-89,
        # msg1.2 90-95, offset1.2 96-107, spare 108-109, dest2 110-139, msg2.1 140-145, offset2.1 146-157, spare 158-159
        base = [40, 110]
        for si, nmsg in enumerate(shape["stations"]):
            b = base[si]
            exp["stations[%d].mmsi" % si] = (b, 30, "raw")
            for mi in range(nmsg):
                mb = b + 30 + 20 * mi
                exp["stations[%d].messages[%d].message_type" % (si, mi)] = (mb, 6, "raw")
                exp["stations[%d].messages[%d].slot_offset" % (si, mi)] = (mb + 6, 12, "opt:0|short")
        return exp
    return None


# communication state (ITU-R M.1371-5 3.3.7.2.1 SOTDMA, 3.3.7.3.2 ITDMA), offsets relative to the
# 19-bit state
SOTDMA = {"sync_state": (0, 2), "slot_timeout": (2, 3), "sub_message": (5, 14)}
SOTDMA_SUB = {0: "SlotOffset", 1: "UtcHourAndMinute", 2: "SlotNumber", 4: "SlotNumber", 6: "SlotNumber",
              3: "ReceivedStations", 5: "ReceivedStations", 7: "ReceivedStations"}
ITDMA = {"sync_state": (0, 2), "slot_increment": (2, 13), "num_slots": (15, 3), "keep": (18, 1)}
# which access scheme each message type uses; 'sel' = selector bit immediately before the state
COMM_SCHEME = {1: "sotdma", 2: "sotdma", 3: "itdma", 4: "sotdma", 11: "sotdma", 9: "sel", 18: "sel"}
COMM_STATE_OFFSET = 149   # last 19 bits of the 168-bit message
