"""Length oracle (C14): for each message type, the smallest payload (in bytes) that contains the
mandatory part, the specification-legal lengths (bits) with the outcome signature they must
produce, and the element-count formulas of the variable parts.  From ITU-R M.1371-5 Annex 8 and
the statement of C14."""

# type -> mandatory bits (everything that must be present for the message to be decodable)
MANDATORY_BITS = {
    1: 168, 2: 168, 3: 168, 4: 168, 9: 168, 11: 168, 18: 168,
    5: 302,            # everything before the destination
    6: 88, 8: 56, 7: 72, 13: 72, 10: 72,
    12: 78, 14: 46,    # header + one character
    15: 76,            # header + first station id + first message id
    16: 92, 17: 120, 19: 312, 20: 70, 21: 272,
    27: 95,            # the last spare bit is not needed
}
# type 24 depends on the part number (bits 38-39): A = 160, B = 168, 2/3 = 40
MANDATORY_BITS_24 = {"PartA": 160, "PartB": 168, "Unknown": 40}


def armored_bytes(bits):
    """bytes handed to the decoder for a message of `bits` bits sent as ceil(bits/6) characters"""
    chars = -(-bits // 6)
    return -(-(chars * 6) // 8)


def exact_bytes(bits):
    return -(-bits // 8)


def legal_lengths(t):
    """specification-legal total lengths in bits for type t (finite representatives for the
    open-ended ones)"""
    if t in (1, 2, 3, 4, 9, 11, 18):
        return [168]
    if t == 5:
        return [424]
    if t == 6:
        return [88, 88 + 8, 88 + 400, 88 + 920]
    if t == 8:
        return [56, 56 + 8, 56 + 400, 56 + 952]
    if t in (7, 13):
        return [72, 104, 136, 168]
    if t == 10:
        return [72]
    if t == 12:
        return [72 + 6, 72 + 6 * 20, 72 + 6 * 156]
    if t == 14:
        return [40 + 6, 40 + 6 * 20, 40 + 6 * 161]
    if t == 15:
        return [88, 110, 112, 160]
    if t == 16:
        return [96, 144]
    if t == 17:
        return [80 + 40, 80 + 40 + 24, 80 + 40 + 696]
    if t == 19:
        return [312]
    if t == 20:
        return [72, 104, 136, 160]
    if t == 21:
        return [272, 360]
    if t == 24:
        return [160, 168]
    if t == 27:
        return [96]
    return []


def expected_count(t, nbytes):
    """number of list elements for the list-carrying types at a payload of nbytes"""
    bits = 8 * nbytes
    if t in (7, 13):
        return max(0, min(4, (bits - 40) // 32))
    if t == 20:
        return max(0, min(4, (bits - 40) // 30))
    return None
