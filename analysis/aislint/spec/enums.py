"""Enumeration tables (C12), from ITU-R M.1371-5 and the statement of C12, keyed by the crate's
public enum and variant names.  A value is None (absent), 'Variant' or ('Variant', 'code') when the
variant carries the transmitted code."""


def rng(a, b, v):
    return {c: v for c in range(a, b + 1)}


NAVIGATION_STATUS = {
    0: "UnderWayUsingEngine", 1: "AtAnchor", 2: "NotUnderCommand", 3: "RestrictedManouverability", 4: "ConstrainedByDraught",
    5: "Moored", 6: "Aground", 7: "EngagedInFishing", 8: "UnderWaySailing", 9: "ReservedForHSC", 10: "ReservedForWIG",
    11: "Reserved01", 12: "Reserved02", 13: "Reserved03", 14: "AisSartIsActive", 15: None,
}
MANEUVER = {0: None, 1: "NoSpecialManeuver", 2: "SpecialManeuver", 3: ("Unknown", "code")}
EPFD = {0: None, 1: "Gps", 2: "Glonass", 3: "CombinedGpsAndGlonass", 4: "LoranC", 5: "Chayka", 6: "IntegratedNavigationSystem",
        7: "Surveyed", 8: "Galileo", 15: None}
EPFD.update(rng(9, 14, ("Unknown", "code")))

SHIP = {0: None}
SHIP.update(rng(1, 19, ("Reserved", "code")))
SHIP.update({20: "WingInGround", 21: "WingInGroundHazardousCategoryA", 22: "WingInGroundHazardousCategoryB",
             23: "WingInGroundHazardousCategoryC", 24: "WingInGroundHazardousCategoryD"})
SHIP.update(rng(25, 29, ("WingInGroundReserved", "code")))
SHIP.update({30: "Fishing", 31: "Towing", 32: "TowingLarge", 33: "Dredging", 34: "DivingOps", 35: "MilitaryOps", 36: "Sailing",
             37: "PleasureCraft"})
SHIP.update(rng(38, 39, ("Reserved", "code")))
for base, name in ((40, "HighSpeedCraft"), (60, "Passenger"), (70, "Cargo"), (80, "Tanker"), (90, "Other")):
    SHIP[base] = name
    for i, cat in enumerate("ABCD"):
        SHIP[base + 1 + i] = name + "HazardousCategory" + cat
    SHIP.update(rng(base + 5, base + 8, (name + "Reserved", "code")))
    SHIP[base + 9] = name + "NoAdditionalInformation"
SHIP.update({50: "PilotVessel", 51: "SearchAndRescueVessel", 52: "Tug", 53: "PortTender", 54: "AntiPollutionEquipment",
             55: "LawEnforcement", 56: ("SpareLocalVessel", "code"), 57: ("SpareLocalVessel", "code"), 58: "MedicalTransport",
             59: "NoncombatantShip"})
SHIP.update(rng(100, 255, None))

NAVAID = {0: None}
for i, n in enumerate(["ReferencePoint", "Racon", "FixedStructureOffShore", "Spare", "LightWithoutSectors", "LightWithSectors",
                       "LeadingLightFront", "LeadingLightRear", "BeaconCardinalN", "BeaconCardinalE", "BeaconCardinalS",
                       "BeaconCardinalW", "BeaconPortHand", "BeaconStarboardHand", "BeaconPreferredChannelPortHand",
                       "BeaconPreferredChannelStarboardHand", "BeaconIsolatedDanger", "BeaconSafeWater", "BeaconSpecialMark",
                       "CardinalMarkN", "CardinalMarkE", "CardinalMarkS", "CardinalMarkW", "PortHandMark", "StarboardHandMark",
                       "PreferredChannelPortHand", "PreferredChannelStarboardHand", "IsolatedDanger", "SafeWater", "SpecialMark",
                       "LightVesselOrLanbyOrRigs"], 1):
    NAVAID[i] = n

SYNC = {0: "UtcDirect", 1: "UtcIndirect", 2: "BaseStation", 3: "NumberOfReceivedStations"}
DTE = {0: "Ready", 1: "NotReady"}
ACCURACY = {0: "Unaugmented", 1: "Dgps"}
ASSIGNED = {0: "Autonomous", 1: "Assigned"}
CARRIER = {0: "Sotdma", 1: "CarrierSense"}
PART = {0: "PartA", 1: "PartB", 2: ("Unknown", "code"), 3: ("Unknown", "code")}

# public enum name -> (table, width in bits)
TABLES = {
    "NavigationStatus": (NAVIGATION_STATUS, 4), "ManeuverIndicator": (MANEUVER, 2), "EpfdType": (EPFD, 4), "ShipType": (SHIP, 8),
    "NavaidType": (NAVAID, 5), "SyncState": (SYNC, 2), "Dte": (DTE, 1), "Accuracy": (ACCURACY, 1), "AssignedMode": (ASSIGNED, 1),
    "CarrierSense": (CARRIER, 1),
}
# which enum each 'enum'-kind field carries (struct-independent: public field name -> enum)
FIELD_ENUM = {
    "navigation_status": "NavigationStatus", "maneuver_indicator": "ManeuverIndicator", "epfd_type": "EpfdType",
    "ship_type": "ShipType", "type_of_ship_and_cargo": "ShipType", "aid_type": "NavaidType", "sync_state": "SyncState", "dte": "Dte",
    "position_accuracy": "Accuracy", "fix_quality": "Accuracy", "accuracy": "Accuracy", "assigned_mode": "AssignedMode",
    "cs_unit": "CarrierSense",
}


def self_check():
    """the tables themselves must be total over the field width and injective on named values"""
    for name, (tab, w) in TABLES.items():
        assert set(tab) == set(range(1 << w)), name
        named = [v for v in tab.values() if isinstance(v, str)]
        assert len(named) == len(set(named)), name
