"""Forward abstract interpreter over the MIR dumped by aisfacts.

Path-partitioned: states are split only on (a) comparisons the path condition cannot decide,
(b) outcome partitions of external transformers.  Values are immutable; the store is a dict
copied on a split.  No input is ever constructed and no solver is used: feasibility is decided
by the IntSet / Lin domains alone.
"""
from __future__ import annotations
import re
import json
from .domains import IntSet, Lin, INF, ceil_div, fmt_atom
from .values import *

MAXLEN = (1 << 28) - 1  # assumption A-len


class Unanalysable(Exception):
    def __init__(self, what, where=None):
        Exception.__init__(self, what)
        self.what, self.where = what, where


class NeedSplit(Exception):
    """raised by pure evaluation code: the current path condition must be split on `atom`
    into the given IntSets (a partition of its current range), or on a linear fact."""

    def __init__(self, atom=None, sets=None, fact=None):
        Exception.__init__(self, "split")
        self.atom, self.sets, self.fact = atom, sets, fact


class NeedCong(Exception):
    """the path must be split on the residue of `atom` modulo m"""

    def __init__(self, atom, m):
        Exception.__init__(self, "cong")
        self.atom, self.m = atom, m


# ------------------------------------------------------------------------------------------------

class PC:
    """path condition: per-atom IntSets, linear facts (lin <= 0), opaque boolean facts"""
    __slots__ = ("sets", "facts", "opq", "subst")

    def __init__(self, sets=None, facts=(), opq=None, subst=None):
        self.sets = sets or {}
        self.facts = tuple(facts)
        self.opq = opq or {}
        self.subst = subst or {}      # atom -> Lin  (x = q*t + r after a congruence split)

    def copy(self):
        return PC(dict(self.sets), self.facts, dict(self.opq), dict(self.subst))

    def describe(self):
        out = []
        for a, s in sorted(self.sets.items(), key=lambda x: repr(x[0])):
            out.append("%s in %r" % (fmt_atom(a), s))
        for f in self.facts:
            out.append("%r <= 0" % (f,))
        for k, v in sorted(self.opq.items(), key=repr):
            out.append("%s=%s" % (k, v))
        for k, v in sorted(self.subst.items(), key=repr):
            out.append("%s := %r" % (fmt_atom(k), v))
        return out


def natural_range(atom):
    k = atom[0]
    if k == "bits":
        return IntSet.range(0, (1 << atom[3]) - 1)
    if k == "sym":
        return IntSet.range(atom[2], atom[3])
    if k == "byte":
        return IntSet.range(0, 255)
    if k == "len":
        return IntSet.range(0, MAXLEN)
    if k == "mod":
        return IntSet.range(0, atom[2] - 1)
    if k in ("wrap", "opqint", "app", "sext", "lz", "disc", "fdiv", "cnt", "hexval", "parsed", "val", "b2i"):
        return IntSet.range(atom[-2], atom[-1])
    if len(atom) >= 3 and isinstance(atom[-1], (int, float)) and isinstance(atom[-2], (int, float)) and not isinstance(atom[-1], bool):
        return IntSet.range(atom[-2], atom[-1])
    return IntSet.top()


class St:
    """one abstract path: store, path condition, event log"""
    __slots__ = ("store", "pc", "events")

    def __init__(self, store=None, pc=None, events=()):
        self.store = store if store is not None else {}
        self.pc = pc or PC()
        self.events = events

    def copy(self):
        return St(dict(self.store), self.pc.copy(), self.events)

    def event(self, *e):
        self.events = self.events + (e,)

    def norm(self, lin):
        """apply the congruence substitutions of the path condition"""
        sub = self.pc.subst
        if not sub or not lin.terms:
            return lin
        changed = False
        out = Lin.const(lin.c)
        for a, k in lin.terms:
            r = sub.get(a)
            if r is not None:
                out = out + self.norm(r).scale(k)
                changed = True
            else:
                out = out + Lin.atom(a, k)
        return out if changed else lin

    def split_cong(self, atom, m):
        """states for atom = m*t + r, r = 0..m-1"""
        cur = self.aset(atom)
        outs = []
        for r in range(m):
            lo, hi = cur.min(), cur.max()
            tlo = 0 if lo == -INF else ceil_div(lo - r, m)
            thi = INF if hi == INF else (hi - r) // m
            if thi != INF and thi < tlo:
                continue
            t = ("quot", atom, m, r, max(tlo, 0) if lo != -INF else tlo, thi)
            s2 = self.copy()
            s2.pc.subst[atom] = Lin.atom(t, m) + r
            outs.append(s2)
        return outs

    # ---- ranges -----------------------------------------------------------------------------
    def aset(self, atom):
        s = self.pc.sets.get(atom)
        k = atom[0]
        if k == "quot":
            d = IntSet.range(atom[-2], atom[-1])
            # bounds inherited from the set of the atom it divides
            base = self.pc.sets.get(atom[1])
            if base is not None and not base.is_empty():
                m, r = atom[2], atom[3]
                lo, hi = base.min(), base.max()
                d = d.intersect(IntSet.range(-INF if lo == -INF else ceil_div(lo - r, m), INF if hi == INF else (hi - r) // m))
            return d if s is None else d.intersect(s)
        if k == "fdiv":
            r = self.lin_range(atom[1])
            c = atom[2]
            if r.is_empty():
                return r
            lo = r.min() // c if r.min() != -INF else -INF
            hi = r.max() // c if r.max() != INF else INF
            d = IntSet.range(lo, hi)
            return d if s is None else d.intersect(s)
        if k == "mod":
            r = self.lin_range(atom[1])
            c = atom[2]
            if not r.is_empty() and r.min() != -INF and r.max() != INF and r.max() - r.min() < c and (r.min() // c) == (r.max() // c):
                d = IntSet.range(r.min() % c, r.max() % c)
            else:
                d = IntSet.range(0, c - 1)
            return d if s is None else d.intersect(s)
        if atom in self.pc.subst:
            d = self.lin_range(self.pc.subst[atom])
            base = natural_range(atom) if s is None else s
            return d.intersect(base)
        if s is None:
            s = natural_range(atom)
        return s

    def lin_range(self, lin):
        lin = self.norm(lin)
        lo = hi = lin.c
        for a, k in lin.terms:
            s = self.aset(a)
            if s.is_empty():
                return IntSet.empty()
            alo, ahi = s.min(), s.max()
            if k > 0:
                lo += k * alo
                hi += k * ahi
            else:
                lo += k * ahi
                hi += k * alo
        return IntSet.range(lo, hi)

    def lin_set(self, lin):
        """exact set when a single atom with |k| = 1, else the hull"""
        sa = lin.single_atom()
        if sa and abs(sa[1]) == 1:
            a, k, c = sa
            return self.aset(a).scale(k).shift(c)
        return self.lin_range(lin)

    # ---- decisions --------------------------------------------------------------------------
    def decide(self, cond):
        """True / False / None"""
        if cond is True or cond is False:
            return cond
        k = cond[0]
        if k == "in":
            cur = self.aset(cond[1])
            if cur.subset_of(cond[2]):
                return True
            if cur.intersect(cond[2]).is_empty():
                return False
            return None
        if k == "le0":
            lin = self.norm(cond[1])
            r = self.lin_range(lin)
            if r.is_empty():
                return True
            if r.max() <= 0:
                return True
            if r.min() > 0:
                return False
            # relational fact about floor division:  Y-(k-1) <= k*fdiv(Y,k) <= Y
            for a, kk in lin.terms:
                if a[0] == "fdiv" and kk % a[2] == 0:
                    m = kk // a[2]
                    base = lin - Lin.atom(a, kk)
                    if m > 0:
                        up = base + a[1].scale(m)                      # upper bound of lin
                        lo_ = base + (a[1] - (a[2] - 1)).scale(m)      # lower bound of lin
                    else:
                        up = base + (a[1] - (a[2] - 1)).scale(m)
                        lo_ = base + a[1].scale(m)
                    if up != lin:
                        ru = self.lin_range(up)
                        if not ru.is_empty() and ru.max() <= 0:
                            return True
                        rl = self.lin_range(lo_)
                        if not rl.is_empty() and rl.min() > 0:
                            return False
            nfacts = [self.norm(f) for f in self.pc.facts] if self.pc.subst else self.pc.facts
            for f in nfacts:
                r = _ratio(lin, f)
                if r is not None:
                    p_, q_, D = r          # q*lin = p*f + D  (p,q > 0):  lin <= floor(D/q)
                    if D // q_ <= 0:
                        return True
                r = _ratio(lin, -f)
                if r is not None:
                    p_, q_, D = r          # q*lin = p*(-f) + D >= D  :  lin >= ceil(D/q)
                    if -((-D) // q_) >= 1:
                        return False
            for f in nfacts:
                d = f - lin  # f <= 0 known; lin = f - d ; if d >= 0 const then lin <= f <= 0
                if d.is_const() and d.c >= 0:
                    return True
                # known f <= 0 ; want to refute lin <= 0, i.e. show lin >= 1:  lin = 1 - f' ...
                d2 = f + lin  # if f + lin == const >= 1 then lin = const - f >= const >= 1
                if d2.is_const() and d2.c >= 1:
                    return False
            # the same with a remainder that is bounded by the atoms' own ranges
            for f in nfacts:
                d = lin - f
                if len(d.terms) < len(lin.terms):
                    rd = self.lin_range(d)
                    if not rd.is_empty() and rd.max() <= 0:
                        return True
                d2 = lin + f
                if len(d2.terms) < len(lin.terms):
                    rd = self.lin_range(d2)
                    if not rd.is_empty() and rd.min() >= 1:
                        return False
            return None
        if k == "not":
            d = self.decide(cond[1])
            return None if d is None else (not d)
        if k == "and":
            a, b = self.decide(cond[1]), self.decide(cond[2])
            if a is False or b is False:
                return False
            if a is True and b is True:
                return True
            return None
        if k == "or":
            a, b = self.decide(cond[1]), self.decide(cond[2])
            if a is True or b is True:
                return True
            if a is False and b is False:
                return False
            return None
        if k == "opq":
            return self.pc.opq.get(cond[1])
        raise Unanalysable("cond %r" % (cond,))

    def assume(self, cond, truth):
        """list of refined copies of self (possibly empty = infeasible)"""
        if cond is True or cond is False:
            return [self] if cond == truth else []
        k = cond[0]
        if k == "not":
            return self.assume(cond[1], not truth)
        if k == "in":
            cur = self.aset(cond[1])
            new = cur.intersect(cond[2]) if truth else cur.minus(cond[2])
            if new.is_empty():
                return []
            a = cond[1]
            if a in self.pc.subst:
                sub = self.norm(Lin.atom(a))
                sa = sub.single_atom()
                if sa and sa[1] > 0:
                    x, kk, d = sa
                    base = []
                    for lo, hi in new.iv:
                        blo = -INF if lo == -INF else ceil_div(lo - d, kk)
                        bhi = INF if hi == INF else (hi - d) // kk
                        base.append((blo, bhi))
                    return self.assume(("in", x, IntSet(base)), True)
            if a[0] == "mod" and isinstance(a[1], Lin):
                # constrain the underlying atom: (k*x+d) mod m in S, for an x of small range
                sa = a[1].single_atom()
                if sa:
                    x, kk, d = sa
                    xs = self.aset(x)
                    if xs.size() <= 4096:
                        keep = [v for v in xs.values() if new.contains((kk * v + d) % a[2])]
                        if not keep:
                            return []
                        return self.assume(("in", x, IntSet.of(*keep)), True)
            if a[0] == "fdiv":
                # constrain the underlying atom instead:  fdiv(k*x+d, c) in [lo,hi]  <=>
                # k*x+d in [c*lo, c*hi+c-1]
                sa = a[1].single_atom()
                if sa and sa[1] > 0:
                    x, kk, d = sa
                    c = a[2]
                    base = []
                    for lo, hi in new.iv:
                        blo = -INF if lo == -INF else ceil_div(c * lo - d, kk)
                        bhi = INF if hi == INF else (c * hi + c - 1 - d) // kk
                        base.append((blo, bhi))
                    return self.assume(("in", x, IntSet(base)), True)
            s = self.copy()
            s.pc.sets[cond[1]] = new
            return [s]
        if k == "le0":
            lin = self.norm(cond[1] if truth else (-cond[1] + 1))
            sa = lin.single_atom()
            if sa:
                a, kk, c = sa
                # kk*a + c <= 0
                if kk > 0:
                    bound = IntSet.range(-INF, (-c) // kk)
                else:
                    bound = IntSet.range(ceil_div(c, -kk), INF)
                return self.assume(("in", a, bound), True)
            d = self.decide(("le0", lin))
            if d is False:
                return []
            s = self.copy()
            if d is None:
                s.pc.facts = s.pc.facts + (lin,)
            return [s]
        if k == "and":
            if truth:
                out = []
                for s in self.assume(cond[1], True):
                    out += s.assume(cond[2], True)
                return out
            out = self.assume(cond[1], False)
            for s in self.assume(cond[1], True):
                out += s.assume(cond[2], False)
            return out
        if k == "or":
            if not truth:
                out = []
                for s in self.assume(cond[1], False):
                    out += s.assume(cond[2], False)
                return out
            out = self.assume(cond[1], True)
            for s in self.assume(cond[1], False):
                out += s.assume(cond[2], True)
            return out
        if k == "opq":
            cur = self.pc.opq.get(cond[1])
            if cur is not None:
                return [self] if cur == truth else []
            s = self.copy()
            s.pc.opq[cond[1]] = truth
            return [s]
        raise Unanalysable("assume %r" % (cond,))


def _ratio(lin, f):
    """(p, q, D) with q*lin == p*f + D, p,q positive integers, if lin and f are parallel"""
    if not lin.terms or len(lin.terms) != len(f.terms):
        return None
    from fractions import Fraction
    r = None
    for (a, k), (b, m) in zip(lin.terms, f.terms):
        if a != b or m == 0:
            return None
        x = Fraction(k, m)
        if x <= 0:
            return None
        if r is None:
            r = x
        elif r != x:
            return None
    p_, q_ = r.numerator, r.denominator
    return p_, q_, q_ * lin.c - p_ * f.c


# ------------------------------------------------------------------------------------------------
# integer helpers

def ty_range(w, s):
    if s:
        return IntSet.range(-(1 << (w - 1)), (1 << (w - 1)) - 1)
    return IntSet.range(0, (1 << w) - 1)


def mk_const(v, w, s):
    return VInt(w, s, lin=Lin.const(v))


def lin_of(st, v):
    """Lin of a VInt (converting a bit-vector when it is a recognisable pattern)"""
    if not isinstance(v, VInt):
        raise Unanalysable("integer arithmetic on a value the analysis does not track: %r" % (v,))
    if v.lin is not None:
        return st.norm(v.lin) if st.pc.subst else v.lin
    return bv_to_lin(st, v)


def atom_width(st, atom):
    """number of significant bits of a non-negative atom, or None"""
    r = st.aset(atom)
    if r.is_empty():
        return 0
    if r.min() < 0 or r.max() == INF:
        return None
    return max(1, int(r.max()).bit_length())


def cell_const(st, cell):
    """constant value of a cell under the path condition, or None"""
    if cell in (0, 1):
        return cell
    if isinstance(cell[0], str):
        if cell[0] == "not":
            x = cell_const(st, cell[1])
            return None if x is None else 1 - x
        x, y = cell_const(st, cell[1]), cell_const(st, cell[2])
        if cell[0] == "BitAnd":
            if x == 0 or y == 0:
                return 0
            if x == 1 and y == 1:
                return 1
        elif cell[0] == "BitOr":
            if x == 1 or y == 1:
                return 1
            if x == 0 and y == 0:
                return 0
        elif cell[0] == "BitXor":
            if x is not None and y is not None:
                return x ^ y
        return None
    atom, i = cell
    s = st.aset(atom)
    vals = set()
    for lo, hi in s.iv:
        if lo == -INF or hi == INF or lo < 0:
            return None
        if (lo >> i) != (hi >> i):
            return None
        vals.add((lo >> i) & 1)
    if len(vals) == 1:
        return vals.pop()
    return None


def bv_of(st, v):
    """cells (MSB first, length v.w) of a VInt"""
    if v.bv is not None:
        return v.bv
    lin = v.lin
    w = v.w
    if lin.is_const():
        c = lin.c & ((1 << w) - 1)
        return tuple((c >> (w - 1 - i)) & 1 for i in range(w))
    sa = lin.single_atom()
    if sa and sa[1] == 1 and sa[2] == 0:
        a = sa[0]
        if a[0] == "sext":
            inner, m = a[1], a[2]
            return tuple(((inner, m - 1) if i >= m else (inner, i)) for i in range(w - 1, -1, -1))
        nat = natural_range(a)
        if nat.min() >= 0 and nat.max() != INF:
            aw = max(1, int(nat.max()).bit_length())      # stable (independent of the path condition)
        else:
            aw = atom_width(st, a)
        if aw is not None and aw <= w:
            return tuple((0 if i >= aw else (a, i)) for i in range(w - 1, -1, -1))
    # general non-negative linear value: introduce a value atom
    r = st.lin_range(lin)
    if not r.is_empty() and r.min() >= 0 and r.max() != INF and int(r.max()).bit_length() <= w:
        a = ("val", lin.key(), 0, r.max())
        aw = max(1, int(r.max()).bit_length())
        return tuple((0 if i >= aw else (a, i)) for i in range(w - 1, -1, -1))
    raise Unanalysable("cannot take bits of %r" % (v,))


def bv_to_lin(st, v):
    cells = v.bv
    w = v.w
    # all constant
    if all(c in (0, 1) for c in cells):
        n = 0
        for c in cells:
            n = (n << 1) | c
        if v.s and cells[0] == 1:
            n -= 1 << w
        return Lin.const(n)
    # zero-extension of one atom: 0..0 (a,m-1) ... (a,0)
    i = 0
    while i < w and cells[i] == 0:
        i += 1
    rest = cells[i:]
    if rest and all(isinstance(c, tuple) for c in rest):
        a = rest[0][0]
        m = len(rest)
        if all(c == (a, m - 1 - j) for j, c in enumerate(rest)):
            aw = atom_width(st, a)
            if aw is not None and aw <= m and (not v.s or m < w):
                nat = natural_range(a).max()
                if v.s and i > 0 and nat != INF and int(nat).bit_length() == m and a in st.pc.sets and cell_const(st, (a, m - 1)) == 0:
                    # the path condition has decided the field's top bit to be 0 and the upper
                    # bits are 0: on this path the value equals the sign extension
                    return Lin.atom(("sext", a, m, -(1 << (m - 1)), (1 << (m - 1)) - 1))
                return Lin.atom(a)
    # sign extension: (a,m-1) repeated, then (a,m-1) ... (a,0)
    if v.s and isinstance(cells[0], tuple):
        a, top = cells[0]
        m = top + 1
        ok = all(cells[j] == (a, top) for j in range(w - m)) and all(
            cells[w - m + j] == (a, m - 1 - j) for j in range(m))
        aw = atom_width(st, a)
        if ok and aw is not None and aw <= m:
            return Lin.atom(("sext", a, m, -(1 << (m - 1)), (1 << (m - 1)) - 1))
    # constant prefix + atom under a path condition that fixes the atom's top bit
    j = 0
    while j < w and cells[j] in (0, 1):
        j += 1
    rest = cells[j:]
    if v.s and j > 0 and rest and all(isinstance(c, tuple) for c in rest):
        a = rest[0][0]
        m = len(rest)
        if all(c == (a, m - 1 - jj) for jj, c in enumerate(rest)) and all(c == cells[0] for c in cells[:j]):
            aw = atom_width(st, a) if st.aset(a).min() >= 0 else None
            top = cell_const(st, (a, m - 1))
            natw = natural_range(a).max()
            if top is not None and top == cells[0] and natw != INF and int(natw).bit_length() <= m:
                return Lin.atom(("sext", a, m, -(1 << (m - 1)), (1 << (m - 1)) - 1))
    # adjacent transmitted bit fields put back together by hand (`(hi & 3) << 8 | lo`): zero
    # extension of one longer field of the same buffer
    rest0 = cells[i:]
    if rest0 and (not v.s or i > 0) and all(isinstance(c, tuple) and len(c) == 2 and isinstance(c[1], int) and isinstance(c[0], tuple)
                                           and c[0] and c[0][0] == "bits" and len(c[0]) == 4 and isinstance(c[0][2], int) for c in rest0):
        buf = rest0[0][0][1]
        absolute = [c[0][2] + (c[0][3] - 1 - c[1]) for c in rest0]      # stream position of each cell's bit
        if all(c[0][1] == buf and 0 <= c[1] < c[0][3] for c in rest0) and absolute == list(range(absolute[0], absolute[0] + len(rest0))):
            return Lin.atom(("bits", buf, absolute[0], len(rest0)))
    # fall back: opaque value atom keyed by the cells
    rng = ty_range(w, v.s)
    return Lin.atom(("opqint", ("bv", cells), rng.min(), rng.max()))


def wrap_result(st, lin, w, s, what):
    """exact result `lin` of an arithmetic op at type (w,s): (VInt, overflow VBool)"""
    r = st.lin_range(lin)
    tr = ty_range(w, s)
    if r.is_empty() or r.subset_of(tr):
        return VInt(w, s, lin=lin), VBool(False)
    if r.intersect(tr).is_empty():
        a = ("wrap", lin.key(), tr.min(), tr.max())
        return VInt(w, s, lin=Lin.atom(a)), VBool(True)
    # may overflow: the overflow flag is the condition  lin < lo or lin > hi
    lo, hi = tr.min(), tr.max()
    over = None
    if r.min() < lo:
        over = ("le0", lin - lo + 1)
    if r.max() > hi:
        c2 = ("le0", -lin + hi + 1)
        over = c2 if over is None else ("or", over, c2)
    d = st.decide(over)
    if d is False:
        return VInt(w, s, lin=lin), VBool(False)
    # value: exact when no overflow, wrapped otherwise; we keep lin and rely on the Assert that
    # follows in checked builds; without an Assert the value is a wrap atom
    return VInt(w, s, lin=lin), VBool(over)


# ------------------------------------------------------------------------------------------------

class Facts:
    def __init__(self, path):
        d = json.load(open(path))
        self.raw = d
        self.crate = d["crate"]
        self.config = d["config"]
        self.types = d["types"]
        self.adts = d["adts"]
        self.bodies = {b["def"]: b for b in d["bodies"]}
        self.consts = d["consts"]
        self.statics = d["statics"]

    def ty(self, i):
        return self.types[i]

    def ty_text(self, i):
        return self.types[i]["text"]

    def adt_variant_index(self, adt, name):
        for i, v in enumerate(self.adts[adt]["variants"]):
            if v["name"] == name:
                return i
        raise KeyError(name)

    def find_body(self, suffix):
        xs = [k for k in self.bodies if k.endswith(suffix)]
        if len(xs) != 1:
            raise KeyError("%s: %r" % (suffix, xs))
        return self.bodies[xs[0]]


OPTION = "core::option::Option"
RESULT = "core::result::Result"
CONTROLFLOW = "core::ops::control_flow::ControlFlow"
NOM_ERR = "nom::internal::Err"


def mk_some(v):
    return VAdt(OPTION, 1, (v,))


NONE = VAdt(OPTION, 0, ())


def mk_ok(v):
    return VAdt(RESULT, 0, (v,))


def mk_err(v):
    return VAdt(RESULT, 1, (v,))


class Obligation:
    __slots__ = ("site", "kind", "loc", "macros", "visits", "failures", "config", "ordinal")

    def __init__(self, site, kind, loc, macros):
        self.site, self.kind, self.loc, self.macros = site, kind, loc, macros
        self.visits = 0
        self.failures = []


class Interp:
    def __init__(self, facts, externals, stubs=(), inline_leaves=False, budget=20000):
        self.f = facts
        self.ext = externals
        self.stubs = set(stubs)
        self.inline_leaves = inline_leaves
        self.budget = budget
        self.paths = 0
        self.ncell = 0
        self.obl = {}
        self.unknown_ext = {}
        self.visited_bodies = set()
        self.depth = 0
        self.call_stack = []
        self.leaf_calls = {}   # def -> list of (arg values, st)
        self.loop_limit = 64
        self.genv_stack = [None]
        self.watch_cells = set()
        self.watch_all = 0           # when n > 0: log every store through a reference, and plain stores in the n outermost frames
        self.regions = []
        self.item_paths = []
        self.loops = {}
        self.nloop = 0
        self.cong_atoms = set()      # atoms whose residue class may be split on demand

    def cong_ok(self, atom):
        if atom in self.cong_atoms:
            return True
        if atom[0] == "quot":
            return self.cong_ok(atom[1])
        return atom[0] == "sym" and str(atom[1]).startswith("$k")

    # ---- cells ------------------------------------------------------------------------------
    def new_cell(self, st, v=UNINIT):
        self.ncell += 1
        st.store[self.ncell] = v
        return self.ncell

    # ---- obligations ------------------------------------------------------------------------
    def obligation(self, st, body, bb, kind, loc, macros, ok, detail=None):
        site = (body["def"], bb)
        o = self.obl.get(site)
        if o is None:
            o = self.obl[site] = Obligation(site, kind, loc, macros)
        o.visits += 1
        if not ok:
            if len(o.failures) < 5:
                o.failures.append((detail, st.pc.describe(), list(self.call_stack)))

    # ---- types ------------------------------------------------------------------------------
    def int_ty(self, tix):
        t = self.f.types[tix]
        if t["k"] == "int":
            return t["w"], t["s"]
        if t["k"] == "char":
            return 32, False
        return None

    # ---- places -----------------------------------------------------------------------------
    def read_place(self, st, frame, place):
        v = st.store[frame[place["l"]]]
        for e in place["p"]:
            v = self.project(st, v, e, frame)
        return v

    def project(self, st, v, e, frame):
        if e == "deref":
            if isinstance(v, VRef):
                return self.read_ref(st, v)
            if isinstance(v, VBox):
                return v.inner
            if isinstance(v, (VSlice, VStr, VOpaque, VSeq, VList, VElems)):
                return v
            raise Unanalysable("deref of %r" % (v,))
        if isinstance(e, dict):
            if "f" in e:
                i = e["f"]
                if isinstance(v, VTuple):
                    return v.items[i]
                if isinstance(v, VAdt):
                    return v.fields[i]
                if isinstance(v, VClosure):
                    return v.upvars[i]
                if isinstance(v, VOpaque):
                    return VOpaque(v.tag + ".%d" % i, e.get("ty"))
                if isinstance(v, VSymEnum):
                    raise Unanalysable("field of symbolic enum without downcast")
                raise Unanalysable("field %d of %r" % (i, v))
            if "dc" in e:
                vi = e["dc"]
                if isinstance(v, VAdt):
                    if v.variant != vi:
                        raise Unanalysable("downcast %r to variant %d" % (v, vi))
                    return v
                if isinstance(v, VSymEnum):
                    d = st.aset(v.disc)
                    if not d.contains(vi):
                        raise Unanalysable("downcast of symbolic enum to infeasible variant")
                    return VAdt(v.adt, vi, v.by_variant[vi])
                if isinstance(v, VOpaque):
                    return VOpaque(v.tag + "#%d" % vi, v.ty)
                raise Unanalysable("downcast of %r" % (v,))
            if "idx" in e:
                idx = st.store[frame[e["idx"]]]
                return self.index_value(st, v, idx)
            if "cidx" in e:
                if e["from_end"]:
                    # `[.., x, _]`: offset counted back from the end (the pattern's length test
                    # has established len >= min_length)
                    if isinstance(v, VSlice):
                        return self.index_value(st, v, VInt(64, False, lin=v.len - e["cidx"]))
                    raise Unanalysable("constant index from end on %r" % (v,))
                return self.index_value(st, v, mk_const(e["cidx"], 64, False))
        raise Unanalysable("projection %r on %r" % (e, v))

    def index_value(self, st, v, idx):
        il = lin_of(st, idx)
        if not il.is_const():
            one = st.lin_set(il)
            if one.is_single():
                il = Lin.const(one.single())
        if isinstance(v, VSlice) and isinstance(v.buf, tuple) and v.buf and v.buf[0] == "cbytes":
            if il.is_const() and v.start.is_const() and 0 <= v.start.c + il.c < len(v.buf[1]):
                return mk_const(v.buf[1][v.start.c + il.c], 8, False)
            sa = il.single_atom()
            vals = st.lin_set(il)
            if sa and abs(sa[1]) == 1 and vals.size() <= 256:
                a, k, c = sa
                raise NeedSplit(a, [IntSet.of((x - c) * k) for x in vals.values()])
            raise Unanalysable("index %r of a constant byte string" % (idx,))
        if isinstance(v, VSlice):
            return VInt(8, False, lin=Lin.atom(("byte", v.buf, (v.start + il).key())))
        if isinstance(v, VSeq):
            if v.term[0] == "zeros":
                return VInt(8, False, lin=Lin.atom(("old", il.key(), 0, 255)))
            return VInt(8, False, lin=Lin.atom(("byte", ("seq", v.term), il.key())))
        if isinstance(v, VList) and il.is_const():
            if not 0 <= il.c < len(v.items):
                raise Unanalysable("constant index %d outside a %d-element list (bounds check missing?)" % (il.c, len(v.items)))
            return v.items[il.c]
        const_table = (isinstance(v, VList) and len(v.items) <= 256) or \
            (isinstance(v, VSlice) and isinstance(v.buf, tuple) and v.buf and v.buf[0] == "cbytes" and v.len.is_const() and v.len.c <= 256)
        if const_table:
            # lookup table indexed by a decoded value: one path per index value
            sa = il.single_atom()
            vals = st.lin_set(il)
            if sa and abs(sa[1]) == 1 and vals.size() <= 256:
                a, k, c = sa
                raise NeedSplit(a, [IntSet.of((x - c) * k) for x in vals.values()])
        if isinstance(v, VSlice) and isinstance(v.buf, tuple) and v.buf and v.buf[0] == "cbytes" and il.is_const() and v.start.is_const():
            return mk_const(v.buf[1][v.start.c + il.c], 8, False)
        raise Unanalysable("index %r of %r" % (idx, v))

    def read_ref(self, st, r):
        v = st.store[r.cell]
        for p in r.path:
            v = self.project_path(st, v, p)
        return v

    def project_path(self, st, v, p):
        k = p[0]
        if k == "f":
            return self.project(st, v, {"f": p[1]}, None)
        if k == "dc":
            return self.project(st, v, {"dc": p[1]}, None)
        if k == "idx":
            return self.index_value(st, v, p[1])
        if k == "deref":
            return self.project(st, v, "deref", None)
        raise Unanalysable("path %r" % (p,))

    def place_loc(self, st, frame, place):
        """(cell, path) of a place"""
        cell = frame[place["l"]]
        path = ()
        for e in place["p"]:
            if e == "deref":
                v = self.read_ref(st, VRef(cell, path))
                if isinstance(v, VRef):
                    cell, path = v.cell, v.path
                elif isinstance(v, (VSlice, VStr, VSeq, VList, VOpaque, VElems)):
                    path = path + (("deref",),)
                else:
                    raise Unanalysable("deref (write) of %r" % (v,))
            elif "f" in e:
                path = path + (("f", e["f"]),)
            elif "dc" in e:
                path = path + (("dc", e["dc"]),)
            elif "idx" in e:
                path = path + (("idx", st.store[frame[e["idx"]]]),)
            elif "cidx" in e:
                path = path + (("idx", mk_const(e["cidx"], 64, False)),)
            else:
                raise Unanalysable("place elem %r" % (e,))
        return cell, path

    def write_loc(self, st, cell, path, val):
        if cell in self.watch_cells or self.watch_all:
            st.event("store", cell, tuple(p if p[0] != "idx" else ("idx",) for p in path))
        st.store[cell] = self.update(st, st.store[cell], path, val)

    def write_place(self, st, frame, place, val):
        if not place["p"]:
            c0 = frame[place["l"]]
            if c0 in self.watch_cells or (self.watch_all and len(self.call_stack) <= self.watch_all):
                st.event("store", c0, ())
            st.store[c0] = val
            return
        cell, path = self.place_loc(st, frame, place)
        self.write_loc(st, cell, path, val)

    def update(self, st, old, path, val):
        if not path:
            return val
        p = path[0]
        if p[0] == "f":
            i = p[1]
            if isinstance(old, VTuple):
                items = list(old.items)
                items[i] = self.update(st, items[i], path[1:], val)
                return VTuple(items)
            if isinstance(old, VAdt):
                fs = list(old.fields)
                fs[i] = self.update(st, fs[i], path[1:], val)
                return VAdt(old.adt, old.variant, fs)
            if isinstance(old, VClosure):
                fs = list(old.upvars)
                fs[i] = self.update(st, fs[i], path[1:], val)
                return VClosure(old.defn, fs, old.genv)
            if isinstance(old, VUninit) and len(path) == 1:
                raise Unanalysable("field write into uninit")
            raise Unanalysable("update field of %r" % (old,))
        if p[0] == "dc":
            if isinstance(old, VAdt) and old.variant == p[1]:
                return self.update(st, old, path[1:], val)
            raise Unanalysable("update downcast of %r" % (old,))
        if p[0] == "idx" and isinstance(old, VSeq) and len(path) == 1:
            return self.seq_store(st, old, p[1], val)
        if p[0] == "deref":
            return self.update(st, old, path[1:], val)
        raise Unanalysable("update %r of %r" % (p, old))

    def seq_store(self, st, seq, idx, val):
        t = seq.term
        if t[0] == "zeros":
            il = lin_of(st, idx)
            oldatom = ("old", il.key(), 0, 255)
            cells = bv_of(st, val) if isinstance(val, VInt) else None
            if cells is None:
                raise Unanalysable("store of %r into a byte buffer" % (val,))
            eff = []
            for i, c in enumerate(cells):
                bit = 7 - i
                if c == (oldatom, bit):
                    eff.append("keep")
                elif c in (0, 1):
                    eff.append("clear" if c == 0 else "set")
                elif isinstance(c, tuple) and c[0] == "BitOr" and (oldatom, bit) in (c[1], c[2]):
                    eff.append(("or", c[2] if c[1] == (oldatom, bit) else c[1]))
                elif isinstance(c, tuple) and c[0] == "BitAnd" and (oldatom, bit) in (c[1], c[2]):
                    eff.append(("and", c[2] if c[1] == (oldatom, bit) else c[1]))
                else:
                    eff.append(("assign", c))
            return VSeq(("zeros", t[1], t[2] + (("w", il.key(), tuple(eff)),)), seq.cap)
        raise Unanalysable("store into %r" % (seq,))

    # ---- operands ---------------------------------------------------------------------------
    def const_val(self, c):
        t = self.f.types[c["ty"]]
        k = t["k"]
        if "fn" in c:
            return VFn(c["fn"])
        if "uneval" in c:
            g = self.genv_stack[-1] or {}
            v = g.get(c["uneval"])
            if v is not None and "const" in v and isinstance(v["const"], int):
                if k == "int":
                    return mk_const(v["const"], t["w"], t["s"])
                if k == "bool":
                    return VBool(bool(v["const"]))
            m = re.match(r"^<Self as (.+)>::(\w+)$", c["uneval"])
            if m and isinstance(g.get("Self"), dict) and "ty" in g["Self"]:
                # an associated constant of the trait the running provided method belongs to: the
                # value the (single) implementation for that Self type gives it
                sty = g["Self"]["ty"]
                cands = [x for x in self.f.consts if x["ty"] == sty and x["name"].endswith("::" + m.group(2)) and "{impl#" in x["def"] and x["value"] is not None]
                if len(cands) == 1:
                    tt = self.f.types[sty]
                    val = cands[0]["value"]
                    if tt["k"] == "int":
                        return mk_const(val, tt["w"], tt["s"])
                    if tt["k"] == "bool":
                        return VBool(bool(val))
                    if tt["k"] == "adt":
                        adt = self.f.adts.get(tt["def"])
                        if adt and adt["kind"] == "enum" and all(not v["fields"] for v in adt["variants"]):
                            vi = [i for i, v in enumerate(adt["variants"]) if v["discr"] == val]
                            if len(vi) == 1:
                                return VAdt(tt["def"], vi[0], [])
            raise Unanalysable("unevaluated constant %s" % c["uneval"])
        if k == "int":
            return mk_const(c["int"], t["w"], t["s"])
        if k == "char":
            return mk_const(c["int"], 32, False)
        if k == "bool":
            return VBool(bool(c["int"]))
        if k == "float":
            return VFloat(("fc", c["float"]))
        if "bytes" in c:
            if k == "ref" and self.f.types[t["ty"]]["k"] == "str":
                return VStr(("cstr", bytes(c["bytes"])))
            return VSlice(("cbytes", bytes(c["bytes"])), Lin.const(0), Lin.const(len(c["bytes"])))
        if "tree" in c:
            return self.tree_val(c["tree"])
        if "zst" in c:
            if k == "tuple":
                return UNIT
            if k == "closure":
                return VClosure(t["def"], ())
            return VOpaque("zst:" + t["text"], c["ty"])
        return VOpaque("const:" + str(c.get("opaque") or c.get("uneval")), c["ty"])

    def tree_val(self, node):
        if "ref" in node:
            return VBox(self.tree_val(node["ref"]))
        if "int" in node:
            t = self.f.types[node["ty"]]
            if t["k"] == "bool":
                return VBool(bool(node["int"]))
            if t["k"] == "char":
                return mk_const(node["int"], 32, False)
            return mk_const(node["int"], t["w"], t["s"])
        if "zst" in node:
            return UNIT
        if "tree" in node:
            return self.tree_val(node["tree"])
        t = self.f.types[node["ty"]]
        fields = [self.tree_val(x) for x in node["fields"]]
        if t["k"] == "adt":
            return VAdt(t["def"], node["variant"] if node["variant"] is not None else 0, fields)
        if t["k"] == "tuple":
            return VTuple(fields) if fields else UNIT
        if t["k"] == "array":
            return VList(fields)
        raise Unanalysable("constant of type " + t["text"])

    def operand(self, st, frame, o):
        if "copy" in o:
            return self.read_place(st, frame, o["copy"])
        if "move" in o:
            return self.read_place(st, frame, o["move"])
        if "const" in o:
            return self.const_val(o["const"])
        raise Unanalysable("operand %r" % (o,))

    # ---- rvalues ----------------------------------------------------------------------------
    def rvalue(self, st, frame, rv):
        if "use" in rv:
            return self.operand(st, frame, rv["use"])
        if "ref" in rv:
            p = rv["ref"]
            # reborrow through a fat pointer: &(*x) where x is a slice/str value
            if p["p"] and p["p"][-1] == "deref":
                inner = dict(p)
                inner = {"l": p["l"], "p": p["p"][:-1]}
                v = self.read_place(st, frame, inner)
                if isinstance(v, (VSlice, VStr, VBox)):
                    return v
                if isinstance(v, VRef):
                    return VRef(v.cell, v.path, rv["mut"])
            if p["p"] and isinstance(p["p"][-1], dict) and "sub_from" in p["p"][-1] and not rv["mut"]:
                # `rest @ ..` in a slice pattern: &(*s)[from..to] or, counted from the end, &(*s)[from..len-to]
                e = p["p"][-1]
                v = self.read_place(st, frame, {"l": p["l"], "p": p["p"][:-1]})
                if isinstance(v, VSlice):
                    if e["from_end"]:
                        return VSlice(v.buf, v.start + e["sub_from"], v.len - e["sub_from"] - e["sub_to"])
                    return VSlice(v.buf, v.start + e["sub_from"], Lin.const(e["sub_to"] - e["sub_from"]))
                raise Unanalysable("subslice pattern on %r" % (v,))
            cell, path = self.place_loc(st, frame, p)
            if path and path[-1] == ("deref",):
                # reference to the unsized contents of a container cell
                return VRef(cell, path[:-1], rv["mut"])
            return VRef(cell, path, rv["mut"])
        if "rawptr" in rv:
            cell, path = self.place_loc(st, frame, rv["rawptr"])
            return VRef(cell, path, True)
        if "bin" in rv:
            a = self.operand(st, frame, rv["l"])
            b = self.operand(st, frame, rv["r"])
            return self.binop(st, rv["bin"], a, b)
        if "un" in rv:
            x = self.operand(st, frame, rv["x"])
            return self.unop(st, rv["un"], x)
        if "cast" in rv:
            x = self.operand(st, frame, rv["x"])
            return self.cast(st, rv["cast"], x, rv["ty"])
        if "disc" in rv:
            v = self.read_place(st, frame, rv["disc"])
            return self.discriminant(st, v)
        if "agg" in rv:
            k = rv["agg"]
            ops = [self.operand(st, frame, o) for o in rv["ops"]]
            if k == "tuple":
                return VTuple(ops) if ops else UNIT
            if isinstance(k, dict) and "adt" in k:
                return VAdt(k["adt"], k["variant"], ops)
            if isinstance(k, dict) and "closure" in k:
                return VClosure(k["closure"], ops, self.genv_stack[-1])
            if isinstance(k, dict) and "array" in k:
                return VList(ops)
            raise Unanalysable("aggregate %r" % (k,))
        if "repeat" in rv:
            x = self.operand(st, frame, rv["repeat"])
            return VOpaque("repeat")
        raise Unanalysable("rvalue %r" % (rv,))

    def discriminant(self, st, v):
        if isinstance(v, VAdt):
            adt = self.f.adts.get(v.adt)
            d = v.variant
            if adt and adt["variants"]:
                d = adt["variants"][v.variant]["discr"]
            return mk_const(d, 64, True)
        if isinstance(v, VSymEnum):
            return VInt(64, True, lin=Lin.atom(v.disc))
        if isinstance(v, VOpaque):
            n = 2
            t = self.f.types[v.ty] if v.ty is not None else None
            if t and t["k"] == "adt" and self.f.adts.get(t["def"], {}).get("variants"):
                n = len(self.f.adts[t["def"]]["variants"])
            return VInt(64, True, lin=Lin.atom(("disc", v.tag, 0, n - 1)))
        if isinstance(v, VApp):
            # a value decoded by a leaf: the variant is a function of the leaf's arguments; split the
            # path on the (single, integer) argument until the variant is determined
            res, atoms = self.leaf_paths(st, v)
            by = {}
            for (s2, rv) in res:
                rv = self.project_val(s2, rv, v.proj)
                if rv is None:
                    continue
                if not isinstance(rv, VAdt):
                    raise Unanalysable("discriminant of %r" % (v,))
                adt = self.f.adts.get(rv.adt)
                d = adt["variants"][rv.variant]["discr"] if adt and adt["variants"] else rv.variant
                key = tuple(None if a is None else s2.aset(a).iv for a in atoms)
                by.setdefault(d, []).append(key)
            if len(by) == 1:
                return mk_const(list(by)[0], 64, True)
            if any(a is None for a in atoms):
                # decoded from bytes (TalkerId::from(&[u8])): an opaque variant number, shared by every
                # test of the same application
                return VInt(64, True, lin=Lin.atom(self.appvar_atom(st, v, by)))
            ints = [i for i, a in enumerate(atoms) if a is not None]
            if len(ints) == 1 and isinstance(v.args[ints[0]], VInt):
                i = ints[0]
                lin = lin_of(st, v.args[i])
                sa = lin.single_atom()
                if sa and abs(sa[1]) == 1:
                    a, k, c = sa
                    parts = []
                    for d, keys in by.items():
                        u = IntSet.empty()
                        for key in keys:
                            u = u.union(IntSet(key[i]))
                        parts.append(IntSet([((lo - c) * k, (hi - c) * k) if k > 0 else ((hi - c) * k, (lo - c) * k) for lo, hi in u.iv]))
                    raise NeedSplit(a, parts)
            raise Unanalysable("discriminant of %r" % (v,))
        raise Unanalysable("discriminant of %r" % (v,))

    def cmp(self, st, op, la, lb):
        d = la - lb
        if len(d.terms) > 1:
            # atoms that have a single value on this path are constants (a sentinel passed as an argument)
            folded = Lin.const(d.c)
            for (a, k) in d.terms:
                sv = st.aset(a)
                if sv.is_single():
                    folded = folded + k * sv.single()
                else:
                    folded = folded + Lin.atom(a, k)
            d = folded
        if op == "Eq" or op == "Ne":
            sa = d.single_atom()
            if d.is_const():
                c = VBool(d.c == 0)
            elif sa and abs(sa[1]) == 1:
                a, k, c0 = sa
                c = VBool(("in", a, IntSet.of(-c0 * k)))
            elif sa:
                a, k, c0 = sa
                if (-c0) % k == 0:
                    c = VBool(("in", a, IntSet.of((-c0) // k)))
                else:
                    c = VBool(False)
            else:
                c = VBool(("and", ("le0", d), ("le0", -d)))
            if op == "Ne":
                return VBool(negate(c.cond))
            return c
        if op == "Lt":
            cond = ("le0", d + 1)
        elif op == "Le":
            cond = ("le0", d)
        elif op == "Gt":
            cond = ("le0", -d + 1)
        elif op == "Ge":
            cond = ("le0", -d)
        else:
            raise Unanalysable("cmp " + op)
        lin = cond[1]
        if lin.is_const():
            return VBool(lin.c <= 0)
        sa = lin.single_atom()
        if sa:
            a, k, c0 = sa
            if k > 0:
                s = IntSet.range(-INF, (-c0) // k)
            else:
                s = IntSet.range(ceil_div(c0, -k), INF)
            return VBool(("in", a, s))
        return VBool(cond)

    def divmod_lin(self, st, la, c, floor=False):
        """(quotient, remainder) of the linear expression la by the positive constant c.  With
        floor=True la may be negative and the floor quotient / non-negative remainder are meant."""
        if la.is_const():
            if floor:
                return Lin.const(la.c // c), Lin.const(la.c % c)
            q = (abs(la.c) // c) * (1 if la.c >= 0 else -1)
            return Lin.const(q), Lin.const(la.c - q * c)
        ra = st.lin_range(la)
        if ra.min() < 0 and not floor:
            raise Unanalysable("division of possibly negative value")
        # split off the part divisible by c
        qt, rt = [], []
        for at, k in la.terms:
            if k % c == 0:
                qt.append((at, k // c))
            else:
                rt.append((at, k))
        rest = Lin(rt, la.c) if rt else Lin.const(la.c)
        if rt:
            rr = st.lin_range(rest)
            if rr.min() < 0 and not floor:
                qt, rest = [], la
        if rest.is_const():
            return Lin(qt, rest.c // c), Lin.const(rest.c % c)
        sa_ = rest.single_atom()
        if sa_ and sa_[1] == 1 and sa_[2] == 0 and sa_[0][0] == "bits" and len(sa_[0]) == 4 and isinstance(sa_[0][2], int) \
                and c & (c - 1) == 0 and c.bit_length() - 1 <= sa_[0][3] and st.aset(sa_[0]).size() > 64:
            # a transmitted bit field split by hand (`b0 >> 2`, `b0 & 3`): its upper / lower bits
            # (a field with few values - a 3-bit time-out tested for parity - keeps its remainder
            # as a function of the field, so that the test constrains the field itself)
            _, buf, pos, n = sa_[0]
            k = c.bit_length() - 1
            hi = Lin.atom(("bits", buf, pos, n - k)) if n - k > 0 else Lin.const(0)
            lo = Lin.atom(("bits", buf, pos + n - k, k)) if k > 0 else Lin.const(0)
            return Lin(qt, 0) + hi, lo
        if sa_ and sa_[1] > 0 and self.cong_ok(sa_[0]) and st.aset(sa_[0]).size() > 64:
            # c does not divide the coefficient: decide the residue class of the atom
            from math import gcd
            raise NeedCong(sa_[0], c // gcd(sa_[1], c))
        rr = st.lin_range(rest)
        if rr.min() < 0:
            raise Unanalysable("remainder of a possibly negative value")
        fa = ("fdiv", rest, c, rr.min() // c, rr.max() // c if rr.max() != INF else INF)
        return Lin(qt, 0) + Lin.atom(fa), Lin.atom(("mod", rest, c))

    def bv_zero_test(self, st, a, b):
        """`pattern == 0` for a bit pattern compared with the constant 0:
        - `x & !mask == 0` (only the bits of one atom from position k upwards): x < 2^k;
        - `x ^ y == 0` (every bit of two atoms XORed pairwise): x == y.
        None when the pattern has another form."""
        for x, zero in ((a, b), (b, a)):
            if x.bv is None or zero.bv is not None:
                continue
            lz = lin_of(st, zero)
            if not (lz.is_const() and lz.c == 0):
                continue
            cells = [c for c in x.bv if c != 0]
            if not cells or any(c == 1 for c in cells):
                return None
            if all(isinstance(c, tuple) and not isinstance(c[0], str) for c in cells):
                atoms = set(c[0] for c in cells)
                if len(atoms) != 1:
                    return None
                atom = next(iter(atoms))
                bits = sorted(c[1] for c in cells)
                cur = st.aset(atom)
                if cur.min() < 0 or cur.max() == INF:
                    return None
                top = max(int(cur.max()).bit_length() - 1, bits[-1])
                k = bits[0]
                if bits == list(range(k, bits[-1] + 1)) and bits[-1] >= int(cur.max()).bit_length() - 1:
                    return VBool(("in", atom, IntSet.range(0, (1 << k) - 1)))
                return None
            if all(isinstance(c, tuple) and c[0] == "BitXor" and all(isinstance(y, tuple) and not isinstance(y[0], str) for y in c[1:]) and c[1][1] == c[2][1] for c in cells):
                A = set(c[1][0] for c in cells)
                B = set(c[2][0] for c in cells)
                if len(A) != 1 or len(B) != 1:
                    return None
                A, B = next(iter(A)), next(iter(B))
                bits = sorted(c[1][1] for c in cells)
                n = len(bits)
                if bits != list(range(n)):
                    return None
                for at in (A, B):
                    cur = st.aset(at)
                    if cur.min() < 0 or cur.max() == INF or int(cur.max()).bit_length() > n:
                        return None
                return self.cmp(st, "Eq", Lin.atom(A), Lin.atom(B))
            return None
        return None

    def binop(self, st, op, a, b):
        if isinstance(a, VBool) and isinstance(b, VBool):
            if op == "BitAnd":
                return VBool(("and", a.cond, b.cond))
            if op == "BitOr":
                return VBool(("or", a.cond, b.cond))
            if op == "Eq":
                return VBool(("or", ("and", a.cond, b.cond), ("and", negate(a.cond), negate(b.cond))))
            if op == "Ne" or op == "BitXor":
                return VBool(("or", ("and", a.cond, negate(b.cond)), ("and", negate(a.cond), b.cond)))
        if isinstance(a, VFloat) or isinstance(b, VFloat):
            ta = a.term if isinstance(a, VFloat) else ("?", valkey(a))
            tb = b.term if isinstance(b, VFloat) else ("?", valkey(b))
            if op in ("Add", "Sub", "Mul", "Div"):
                return VFloat(("f" + op.lower(), ta, tb))
            if op in ("Eq", "Ne", "Lt", "Le", "Gt", "Ge"):
                return VBool(("opq", ("fcmp", op, ta, tb)))
        if isinstance(a, VOpaque) or isinstance(b, VOpaque):
            if op in ("Eq", "Ne", "Lt", "Le", "Gt", "Ge"):
                return VBool(("opq", ("cmp", op, valkey(a), valkey(b))))
            return VOpaque("bin(%s)" % op)
        if isinstance(a, VApp):
            a = self.app_as_int(st, a)
        if isinstance(b, VApp):
            b = self.app_as_int(st, b)
        if not (isinstance(a, VInt) and isinstance(b, VInt)):
            raise Unanalysable("binop %s on %r, %r" % (op, a, b))
        w, s = a.w, a.s
        base = op.replace("WithOverflow", "").replace("Unchecked", "")
        checked = op.endswith("WithOverflow")
        if base in ("Add", "Sub", "Mul"):
            la, lb = lin_of(st, a), lin_of(st, b)
            if base == "Add":
                r = la + lb
            elif base == "Sub":
                r = la - lb
            else:
                if la.is_const():
                    r = lb.scale(la.c)
                elif lb.is_const():
                    r = la.scale(lb.c)
                else:
                    ra, rb = st.lin_range(la), st.lin_range(lb)
                    cands = [x * y for x in (ra.min(), ra.max()) for y in (rb.min(), rb.max())]
                    r = Lin.atom(("opqint", ("mul", la.key(), lb.key()), min(cands), max(cands)))
            val, over = wrap_result(st, r, w, s, op)
            if checked:
                return VTuple((val, over))
            if over.cond is not False:
                tr = ty_range(w, s)
                return VInt(w, s, lin=Lin.atom(("wrap", r.key(), tr.min(), tr.max())))
            return val
        if base in ("Div", "Rem"):
            la, lb = lin_of(st, a), lin_of(st, b)
            if not lb.is_const() or lb.c <= 0:
                raise Unanalysable("division by non-constant")
            qv, mv = self.divmod_lin(st, la, lb.c)
            return VInt(w, s, lin=qv if base == "Div" else mv)
        if base == "BitAnd" and not s and (a.bv is None or b.bv is None):
            # x & (2^k - 1) on an arithmetic value is x mod 2^k; for a value that wrapped around
            # 2^w (wrapping_sub) the floor remainder of the unwrapped expression, 2^k dividing 2^w
            for x, m in ((a, b), (b, a)):
                lm = lin_of(st, m) if m.bv is None else None
                if lm is not None and lm.is_const() and lm.c > 0 and (lm.c & (lm.c + 1)) == 0 and lm.c + 1 < (1 << w) and x.bv is None:
                    lx = lin_of(st, x)
                    if lx.is_const():
                        break
                    sa0 = lx.single_atom()
                    if sa0 and sa0[1] == 1 and sa0[2] == 0 and sa0[0][0] == "wrap" and isinstance(sa0[0][1], tuple) and sa0[0][1][0] == "lin" \
                            and sa0[0][2] == 0 and sa0[0][3] == (1 << w) - 1:
                        lx = Lin(sa0[0][1][1], sa0[0][1][2])
                    elif st.lin_range(lx).min() < 0:
                        break
                    elif st.lin_range(lx).max() <= lm.c:
                        return VInt(w, s, lin=lx)        # the mask keeps every bit the value can have
                    qv, mv = self.divmod_lin(st, lx, lm.c + 1, floor=True)
                    return VInt(w, s, lin=mv)
        if base in ("Lt", "Ge") and s and a.bv is not None and isinstance(b, VInt) and lin_of(st, b).is_const() and lin_of(st, b).c == 0:
            # sign test of a bit pattern (`(num << (32 - len)) < 0`): the top cell decides
            top = a.bv[0]
            cc = cell_const(st, top)
            if cc is not None:
                return VBool((cc == 1) if base == "Lt" else (cc == 0))
            if isinstance(top, tuple) and not isinstance(top[0], str):
                atom, i = top
                cur = st.aset(atom)
                if cur.max() != INF and cur.min() >= 0 and int(cur.max()).bit_length() <= i + 1:
                    neg = ("in", atom, IntSet.range(1 << i, (1 << (i + 1)) - 1))
                    return VBool(neg if base == "Lt" else negate(neg))
        if base in ("Eq", "Ne"):
            z = self.bv_zero_test(st, a, b)
            if z is not None:
                return z if base == "Eq" else VBool(negate(z.cond))
        if base in ("Eq", "Ne", "Lt", "Le", "Gt", "Ge"):
            return self.cmp(st, base, lin_of(st, a), lin_of(st, b))
        if base in ("BitAnd", "BitOr", "BitXor"):
            ca, cb = bv_of(st, a), bv_of(st, b)
            out = []
            for x, y in zip(ca, cb):
                out.append(bit_op(base, x, y))
            return VInt(w, s, bv=tuple(out))
        if base in ("Shl", "Shr"):
            lb = lin_of(st, b)
            ca = bv_of(st, a)
            if not lb.is_const() and st.lin_set(lb).is_single():
                lb = Lin.const(st.lin_set(lb).single())
            if not lb.is_const():
                sset = st.lin_set(lb)
                if sset.size() != INF and sset.size() <= 16:
                    sa = lb.single_atom()
                    if sa and abs(sa[1]) == 1:
                        at, k, c0 = sa
                        raise NeedSplit(at, [IntSet.of((v - c0) * k) for v in sset.values()])
                raise Unanalysable("shift by non-constant %r" % (lb,))
            n = lb.c
            if base == "Shr" and not s and a.bv is None and 0 <= n < w and not lin_of(st, a).is_const() and st.lin_range(lin_of(st, a)).min() >= 0:
                qv, _ = self.divmod_lin(st, lin_of(st, a), 1 << n)
                return VInt(w, s, lin=qv)
            if n < 0 or n >= w:
                tr = ty_range(w, s)
                return VInt(w, s, lin=Lin.atom(("wrap", ("shift", valkey(a), n), tr.min(), tr.max())))
            if base == "Shl":
                out = ca[n:] + (0,) * n
            else:
                fill = ca[0] if s else 0
                out = (fill,) * n + ca[: w - n]
            return VInt(w, s, bv=tuple(out))
        if base == "Cmp":
            raise Unanalysable("three-way compare")
        raise Unanalysable("binop " + op)

    def unop(self, st, op, x):
        if op == "Not":
            if isinstance(x, VBool):
                return VBool(negate(x.cond))
            if isinstance(x, VInt):
                cells = bv_of(st, x)
                return VInt(x.w, x.s, bv=tuple(bit_not(c) for c in cells))
        if op == "Neg" and isinstance(x, VInt):
            val, over = wrap_result(st, -lin_of(st, x), x.w, x.s, "Neg")
            return val
        if op == "Neg" and isinstance(x, VFloat):
            return VFloat(("fneg", x.term))
        if op == "PtrMetadata":
            return self.len_of(st, x)
        raise Unanalysable("unop %s on %r" % (op, x))

    def len_of(self, st, x):
        if isinstance(x, VRef):
            x = self.read_ref(st, x)
        if isinstance(x, VSlice):
            return VInt(64, False, lin=x.len)
        if isinstance(x, VSeq):
            return VInt(64, False, lin=self.seq_len(st, x.term))
        if isinstance(x, VList):
            return mk_const(len(x.items), 64, False)
        if isinstance(x, VStr):
            return VInt(64, False, lin=Lin.atom(("len", ("str", nocap(x.term)), 0, MAXLEN)))
        raise Unanalysable("len of %r" % (x,))

    def seq_len(self, st, t):
        k = t[0]
        if k == "empty":
            return Lin.const(0)
        if k == "slice":
            return t[3]
        if k == "concat":
            return self.seq_len(st, t[1]) + self.seq_len(st, t[2])
        if k == "sym":
            return Lin.atom(("len", ("seq", t)))
        if k == "zeros":
            return t[1]
        raise Unanalysable("seq_len %r" % (t,))

    def cast_to_width(self, st, x, w, s=False):
        """truncating / extending integer cast to an unsigned (or signed) type of width w"""
        tr = ty_range(w, s)
        if x.lin is not None and st.lin_range(x.lin).subset_of(tr):
            return VInt(w, s, lin=x.lin)
        cells = bv_of(st, x)
        out = cells[x.w - w:] if w <= x.w else ((cells[0] if x.s else 0),) * (w - x.w) + cells
        v = VInt(w, s, bv=tuple(out))
        return VInt(w, s, lin=bv_to_lin(st, v))

    def int_to_int(self, st, x, w, s):
        """integer-to-integer `as` cast of x to width w / signedness s"""
        tr = ty_range(w, s)
        if x.lin is not None:
            r = st.lin_range(x.lin)
            if r.subset_of(tr):
                return VInt(w, s, lin=x.lin)
            # reinterpretation between same-width signed/unsigned or narrowing: split on sign
            sa = x.lin.single_atom()
            if sa and sa[1] == 1 and sa[2] == 0 and w == x.w and s and not x.s:
                a = sa[0]
                half = 1 << (w - 1)
                cur = st.aset(a)
                lo_part = cur.intersect(IntSet.range(0, half - 1))
                hi_part = cur.intersect(IntSet.range(half, (1 << w) - 1))
                if lo_part and hi_part:
                    raise NeedSplit(a, [lo_part, hi_part])
                if hi_part:
                    return VInt(w, s, lin=x.lin - (1 << w))
        cells = bv_of(st, x)
        if w <= x.w:
            out = cells[x.w - w:]
        else:
            fill = cells[0] if x.s else 0
            out = (fill,) * (w - x.w) + cells
        v = VInt(w, s, bv=tuple(out))
        return VInt(w, s, lin=bv_to_lin(st, v)) if True else v

    def cast(self, st, kind, x, tix):
        t = self.f.types[tix]
        if kind in ("IntToInt", "IntToFloat") and isinstance(x, VApp):
            x = self.app_as_int(st, x)
        if kind == "IntToInt":
            if isinstance(x, VBool):
                w, s = t["w"], t["s"]
                c = x.cond
                if c is True or c is False:
                    return mk_const(int(c), w, s)
                d = st.decide(c)
                if d is not None:
                    return mk_const(int(d), w, s)
                return VInt(w, s, lin=Lin.atom(("b2i", cond_key(c), 0, 1)))
            if not isinstance(x, VInt):
                if isinstance(x, VOpaque):
                    return VOpaque("cast(%s)" % x.tag, tix)
                raise Unanalysable("IntToInt of %r" % (x,))
            w, s = (32, False) if t["k"] == "char" else (t["w"], t["s"])
            return self.int_to_int(st, x, w, s)
        if kind == "IntToFloat":
            if isinstance(x, VInt):
                return VFloat(("i2f", lin_of(st, x).key(), x.w, x.s))
            return VFloat(("i2f?", valkey(x)))
        if kind.startswith("PointerCoercion(Unsize"):
            return x
        if kind.startswith("PointerCoercion"):
            return x
        if kind in ("PtrToPtr", "Transmute", "FloatToFloat", "Subtype"):
            return x
        if kind == "FloatToInt":
            return VOpaque("f2i", tix)
        raise Unanalysable("cast %s" % kind)

    # ---- execution --------------------------------------------------------------------------
    def exec_fn(self, st, body, args, genv=None):
        """-> list of (st, retval)"""
        self.visited_bodies.add(body["def"])
        self.genv_stack.append(genv)
        if self.depth > 40:
            raise Unanalysable("call depth (recursion?) at " + body["def"])
        self.depth += 1
        self.call_stack.append(body["def"])
        try:
            frame = [self.new_cell(st) for _ in body["locals"]]
            if len(args) != body["arg_count"]:
                raise Unanalysable("arity mismatch calling %s: %d vs %d" % (body["def"], len(args), body["arg_count"]))
            for i, a in enumerate(args):
                st.store[frame[i + 1]] = a
            results = []
            work = [(st, 0, 0, {})]
            ncell0 = frame[0]
            while work:
                st, bb, si, visits = work.pop()
                self.run_path(st, body, frame, bb, si, visits, work, results)
            out = []
            for (s2, rv) in results:
                rv = self.norm(s2, rv)
                for c in frame:
                    s2.store.pop(c, None)
                out.append((s2, rv))
            if len(out) > 1:
                out = self.merge_results(out, ncell0)
            return out
        finally:
            self.depth -= 1
            self.call_stack.pop()
            self.genv_stack.pop()

    def split_states(self, st, ns):
        if ns.fact is not None:
            return st.assume(("le0", ns.fact), True) + st.assume(("le0", ns.fact), False)
        out = []
        covered = IntSet.empty()
        for s in ns.sets:
            out += st.assume(("in", ns.atom, s), True)
            covered = covered.union(s)
        # the partition was computed by the code that raised the request, possibly on a state that
        # is narrower than this one (a nested call refined it): keep what the partition leaves out
        rest = st.aset(ns.atom).minus(covered)
        if not rest.is_empty():
            out += st.assume(("in", ns.atom, rest), True)
        return out

    def run_path(self, st, body, frame, bb, si, visits, work, results):
        blocks = body["blocks"]
        while True:
            self.paths += 1
            if self.paths > self.budget * 50:
                raise Unanalysable("step budget exceeded in " + body["def"])
            if si == 0 and self.regions:
                rg = self.regions[-1]
                if rg["body"] is body and rg["frame"] is frame and bb == rg["stop"]:
                    rg["backs"].append(st)
                    return
            if si == 0:
                visits = dict(visits)
                visits[bb] = visits.get(bb, 0) + 1
                if visits[bb] > self.loop_limit:
                    raise Unanalysable("loop not bounded by the accepted shapes", (body["def"], bb))
            blk = blocks[bb]
            stmts = blk["stmts"]
            try:
                while si < len(stmts):
                    self.exec_stmt(st, frame, stmts[si])
                    si += 1
                nxt = self.exec_term(st, body, frame, bb, blk["term"], results)
            except NeedSplit as ns:
                for alt in self.split_states(st, ns):
                    work.append((alt, bb, si, visits))
                return
            except NeedCong as nc:
                for alt in st.split_cong(nc.atom, nc.m):
                    work.append((alt, bb, si, visits))
                return
            if not nxt:
                return
            for (s2, b2) in nxt[1:]:
                work.append((s2, b2, 0, visits))
            st, bb = nxt[0]
            si = 0

    def exec_stmt(self, st, frame, s):
        if "assign" in s:
            v = self.rvalue(st, frame, s["rv"])
            self.write_place(st, frame, s["assign"], v)
        elif "set_disc" in s:
            raise Unanalysable("SetDiscriminant")
        elif "intrinsic" in s:
            pass

    def switch(self, st, v, targets, otherwise):
        """-> list of (st, bb)"""
        if isinstance(v, VBool):
            d = st.decide(v.cond)
            tmap = dict((val, bb) for val, bb in targets)
            f_bb = tmap.get(0, otherwise)
            t_bb = tmap.get(1, otherwise)
            if d is True:
                return [(st, t_bb)]
            if d is False:
                return [(st, f_bb)]
            out = [(s, t_bb) for s in st.assume(v.cond, True)]
            out += [(s, f_bb) for s in st.assume(v.cond, False)]
            return out
        if isinstance(v, VInt):
            lin = lin_of(st, v)
            w = v.w

            def conv(val):
                # switch values are raw bit patterns
                if v.s and val >= (1 << (w - 1)):
                    return val - (1 << w)
                return val
            if lin.is_const():
                for val, bb in targets:
                    if conv(val) == lin.c:
                        return [(st, bb)]
                return [(st, otherwise)]
            sa = lin.single_atom()
            if not sa:
                # a difference of two quantities (`checked_sub(..)` matched against `Some(1)`): decide
                # each target by linear facts
                out = []
                remaining = [st]
                for val, bb in targets:
                    cv = conv(val)
                    nxt = []
                    for s in remaining:
                        for s1 in s.copy().assume(("le0", lin - cv), True):
                            for s2 in s1.assume(("le0", -lin + cv), True):
                                out.append((s2, bb))
                        nxt += s.copy().assume(("le0", lin - cv + 1), True)      # lin < cv
                        nxt += s.copy().assume(("le0", -lin + cv + 1), True)     # lin > cv
                    remaining = nxt
                out += [(s, otherwise) for s in remaining]
                return out
            a, k, c0 = sa
            cur = st.aset(a)
            by_bb = {}
            covered = IntSet.empty()
            for val, bb in targets:
                # k*a + c0 == val  <=>  a == (val - c0)/k when that is an integer
                if (conv(val) - c0) % k != 0:
                    continue
                av = (conv(val) - c0) // k
                by_bb.setdefault(bb, []).append(av)
                covered = covered.union(IntSet.of(av))
            out = []
            for bb, vals in by_bb.items():
                s = IntSet.of(*vals).intersect(cur)
                if s:
                    out += [(x, bb) for x in st.assume(("in", a, s), True)]
            rest = cur.minus(covered)
            if rest:
                out += [(x, otherwise) for x in st.assume(("in", a, rest), True)]
            return out
        if isinstance(v, VOpaque):
            a = ("disc", v.tag, 0, max([val for val, _ in targets] + [1]))
            return self.switch(st, VInt(64, False, lin=Lin.atom(a)), targets, otherwise)
        if isinstance(v, VApp):
            # a flag / small integer decoded by a leaf (`if u8_to_bool(bit) { .. }`): one case per leaf path
            out = []
            for s2, val in self.app_cases(st, v):
                out += self.switch(s2, val, targets, otherwise)
            return out
        raise Unanalysable("switch on %r" % (v,))

    def exec_term(self, st, body, frame, bb, t, results):
        if "goto" in t:
            return [(st, t["goto"])]
        if "switch" in t:
            v = self.operand(st, frame, t["switch"])
            return self.switch(st, v, t["targets"], t["otherwise"])
        if "return" in t:
            results.append((st, st.store[frame[0]]))
            return []
        if "unreachable" in t:
            return []
        if "drop" in t:
            return [(st, t["target"])]
        if "assert" in t:
            c = self.operand(st, frame, t["assert"])
            want = t["expected"]
            cond = c.cond if isinstance(c, VBool) else ("opq", ("assert", valkey(c)))
            d = st.decide(cond)
            ok = (d is not None and d == want)
            if d is not None and d != want:
                # always fails on this path
                self.obligation(st, body, bb, t["kind"], t["loc"], t["macros"], False, "always violated")
                return []
            self.obligation(st, body, bb, t["kind"], t["loc"], t["macros"], ok, None if ok else "cannot prove %r == %s" % (cond, want))
            if ok:
                return [(st, t["target"])]
            return [(s, t["target"]) for s in st.assume(cond, want)]
        if "call" in t:
            self._cur_results = results
            outs = self.call(st.copy(), body, frame, bb, t)
            nxt = []
            for (s2, rv) in outs:
                if t["target"] is None:
                    continue
                self.write_place(s2, frame, t["dest"], rv)
                nxt.append((s2, t["target"]))
            return nxt
        if "resume" in t or "unwind_terminate" in t:
            return []
        raise Unanalysable("terminator %r" % (list(t.keys()),))

    # ---- calls ------------------------------------------------------------------------------
    def is_leaf(self, body):
        """callee whose parameters are plain scalars and whose result holds no reference"""
        if body["kind"] == "Closure":
            params = body["locals"][2:1 + body["arg_count"]]
            ct = self.f.types[body["locals"][1]]
            # closure self: &closure or closure
            if ct["k"] == "ref":
                ct = self.f.types[ct["ty"]]
            def scalar_capture(u, depth=0):
                ut = self.f.types[u]
                if ut["k"] == "ref":
                    ut = self.f.types[ut["ty"]]
                if ut["k"] in ("int", "bool", "float", "char"):
                    return True
                # a captured helper closure that itself captures only scalars (`.map(rescale)`)
                if ut["k"] == "closure" and depth < 2:
                    return all(scalar_capture(x, depth + 1) for x in ut.get("upvars", []))
                return False
            ups = ct.get("upvars", [])
            for u in ups:
                if not scalar_capture(u):
                    return False
        else:
            params = body["locals"][1:1 + body["arg_count"]]
        if not params:
            return False
        has_slice = False
        for p in params:
            t = self.f.types[p]
            if t["k"] in ("int", "bool", "float", "char"):
                continue
            if t["k"] == "ref" and not t["mut"] and self.f.types[t["ty"]]["k"] == "slice":
                et = self.f.types[self.f.types[t["ty"]]["ty"]]
                if et["k"] == "int" and et["w"] == 8:
                    has_slice = True
                    continue
            return False
        rt = self.f.types[body["locals"][0]]["text"]
        if "&" in rt or "nom::" in rt or "IResult" in rt:
            return False
        if has_slice:
            return self.pure_body(body, set())
        return True

    def pure_body(self, body, seen):
        """no calls into nom and no calls to local functions that are not themselves pure: the
        function is a table / fold over its arguments"""
        cache = self.__dict__.setdefault("_pure_cache", {})
        d = body["def"]
        if d in cache:
            return cache[d]
        if d in seen:
            return False
        seen = seen | {d}
        ok = True
        for blk in body["blocks"]:
            if blk["cleanup"]:
                continue
            t = blk["term"]
            if "call" not in t:
                continue
            c = t["call"]
            if "def" not in c:
                ok = False
                break
            r = c.get("resolved") or c
            if r.get("krate") == "nom" or c.get("krate") == "nom":
                ok = False
                break
            if r.get("local") and r["def"] in self.f.bodies:
                if not self.pure_body(self.f.bodies[r["def"]], seen):
                    ok = False
                    break
            # closures created here and passed to core iterators
            for a in t["args"]:
                if "const" in a and "zst" in a["const"]:
                    tt = self.f.types[a["const"]["ty"]]
                    if tt["k"] == "closure" and tt["def"] in self.f.bodies and not self.pure_body(self.f.bodies[tt["def"]], seen):
                        ok = False
        cache[d] = ok
        return ok

    def call(self, st, body, frame, bb, t):
        callee = t["call"]
        if "indirect" in callee:
            fv = self.operand(st, frame, callee["indirect"])
            if isinstance(fv, (VFn, VClosure)):
                # a function pointer whose target is known (`wrap: fn(T) -> AisMessage` given a constructor)
                args = [self.operand(st, frame, a) for a in t["args"]]
                ctx = {"body": body, "bb": bb, "term": t, "frame": frame, "results": self._cur_results}
                return self.apply_callable(st, fv, args, ctx)
            raise Unanalysable("indirect call through %r" % (fv,))
        args = [self.operand(st, frame, a) for a in t["args"]]
        ctx = {"body": body, "bb": bb, "term": t, "frame": frame, "results": self._cur_results}
        return self.call_fn(st, callee, args, ctx)

    def rty(self, tix):
        """type record with a type parameter of the current generic function replaced by its argument"""
        t = self.f.types[tix]
        if t["k"] == "param":
            ge = self.genv_stack[-1] or {}
            gv = ge.get(t["name"])
            if gv is not None and "ty" in gv:
                return self.f.types[gv["ty"]]
        return t

    def resolve_generic_trait_call(self, callee):
        """`<T as Trait>::method` inside a generic function: with T known from the call's generic
        arguments, the local impl of Trait for that type"""
        if callee.get("resolved") is not None or not callee.get("trait"):
            return None
        ga = callee.get("args") or []
        if not ga or "ty" not in ga[0]:
            return None
        st_ = self.f.types[ga[0]["ty"]]
        if st_["k"] != "param":
            return None
        conc = self.rty(ga[0]["ty"])
        if conc["k"] == "param":
            return None
        mname = callee["def"].rsplit("::", 1)[1]
        tdef = callee["def"].rsplit("::", 1)[0]
        wants = set(x.split("<")[0] for x in (conc.get("def"), conc.get("text"), conc.get("name")) if x)
        cands = []
        for b in self.f.bodies.values():
            if not b["def"].endswith("::" + mname):
                continue
            it = b.get("impl_trait") or ""
            if not it or it.split("<")[0] != tdef:
                continue
            selft = b.get("impl_self") or ""
            if selft.split("<")[0] in wants:
                cands.append(b)
        if len(cands) == 1:
            return cands[0]
        return None

    def call_fn(self, st, callee, args, ctx):
        """callee: fn record from the facts.  -> list of (st, retval)"""
        gb = self.resolve_generic_trait_call(callee)
        if gb is not None:
            return self.call_local(st, gb, args, ctx, None)
        target = callee
        r = callee.get("resolved")
        if r is not None and r["kind"] in ("item", "closure_once_shim", "fnptr_shim", "reify_shim"):
            target = r
        key = target["def"]
        if key in self.stubs:
            return self.ext["__stub__"](self, st, callee, target, args, ctx)
        if target["local"] and key in self.f.bodies:
            b = self.f.bodies[key]
            if b["kind"] == "Closure" and r is not None:
                # Fn*::call*(self, (args,)) on a local closure: unpack the argument tuple
                return self.call_closure_body(st, b, args[0], args[1], ctx)
            return self.call_local(st, b, args, ctx, target)
        h = self.ext.get(key) or self.ext.get(callee["def"])
        if h is None and key.endswith("::{constructor#0}"):
            # tuple struct / tuple variant constructor used as a function (`map(p, Foo::Bar)`)
            path = key[:-len("::{constructor#0}")]
            if path in self.f.adts and self.f.adts[path].get("variants"):
                return [(st, VAdt(path, 0, tuple(args)))]
            if "::" in path:
                parent, vname = path.rsplit("::", 1)
                adt = self.f.adts.get(parent)
                if adt and adt.get("variants"):
                    for vi, var in enumerate(adt["variants"]):
                        if var["name"] == vname and len(var["fields"]) == len(args):
                            return [(st, VAdt(parent, vi, tuple(args)))]
        if h is None:
            # trait-method call on an abstract callable value?
            h = self.ext.get("__default__")
        return h(self, st, callee, target, args, ctx)

    @staticmethod
    def computed_float(v):
        """a float that is an expression over transmitted bits (not a plain parameter or constant):
        a helper applied to it is one step of a chain (`convert(raw).map(rescale)`) and is
        interpreted in place, so that the field's value stays one expression over the raw bits"""
        return isinstance(v, VFloat) and isinstance(v.term, tuple) and v.term[0] not in ("sym", "fc", "fconst")

    def call_local(self, st, b, args, ctx, target=None):
        if not self.inline_leaves and self.is_leaf(b) and not any(self.computed_float(a) for a in args):
            args = [self.norm(st, a) for a in args]
            st.event("leaf", b["def"], tuple(valkey(a) for a in args))
            self.leaf_calls.setdefault(b["def"], []).append((tuple(args), st))
            return [(st, self.leaf_app(st, b, args))]
        if (b.get("impl_trait") or "").endswith("convert::From"):
            st.event("from_impl", b.get("impl_trait_ref") or b["def"])      # which conversion built a value (error provenance)
        genv = None
        if b.get("trait") and not b.get("impl_trait") and target is not None and not b.get("generics") and len(target.get("args") or []) == 1:
            # a method a trait provides: `Self` is the type it is called for
            genv = {"Self": target["args"][0]}
        if b.get("generics") and target is not None:
            ga = target.get("args") or []
            if len(ga) == len(b["generics"]):
                genv = dict(zip(b["generics"], ga))
                outer = self.genv_stack[-1] or {}
                for n, v in list(genv.items()):
                    # arguments that are themselves parameters of the caller
                    if "const" in v and isinstance(v["const"], str) and v["const"] in outer:
                        genv[n] = outer[v["const"]]
        return self.exec_fn(st, b, args, genv)

    def leaf_app(self, st, b, args, extra=()):
        rt = b["locals"][0]
        t = self.f.types[rt]
        app = VApp(b["def"], tuple(args) + tuple(extra), rt)
        if t["k"] == "int":
            # an integer result may be used in further arithmetic: an atom with the result's range
            tr = ty_range(t["w"], t["s"])
            r = None
            try:
                r = self.app_int_range(st, app)
            except Unanalysable:
                r = None
            lo, hi = (tr.min(), tr.max()) if (r is None or r.is_empty()) else (max(tr.min(), r.min()), min(tr.max(), r.max()))
            # a leaf that is just a conversion of its arguments (`|v| v as u8` on a value that fits,
            # `x + 1`): use the expression itself instead of an opaque application
            try:
                res, atoms = self.leaf_paths(st, app)
                if len(res) == 1 and isinstance(res[0][1], VInt):
                    s2, rv = res[0]
                    rl = lin_of(s2, rv)
                    if all(a in atoms for a in rl.atoms()):
                        out = Lin.const(rl.c)
                        okk = True
                        for (a, k) in rl.terms:
                            arg = app.args[atoms.index(a)]
                            if not isinstance(arg, VInt):
                                okk = False
                                break
                            out = out + lin_of(st, arg).scale(k)
                        if okk:
                            return VInt(t["w"], t["s"], lin=out)
            except Unanalysable:
                pass
            return VInt(t["w"], t["s"], lin=Lin.atom(("app", b["def"], tuple(valkey(a) for a in app.args), lo, hi)))
        return app

    def call_closure_body(self, st, b, selfv, argtuple, ctx):
        cv = selfv
        if isinstance(cv, VRef):
            cvv = self.read_ref(st, cv)
        else:
            cvv = cv
        if isinstance(argtuple, VTuple):
            items = list(argtuple.items)
        elif isinstance(argtuple, VUnit):
            items = []
        else:
            raise Unanalysable("closure args %r" % (argtuple,))
        if not self.inline_leaves and self.is_leaf(b) and not any(self.computed_float(a) for a in items):
            ups = []

            def flat(u):
                v = self.read_ref(st, u) if isinstance(u, VRef) else u
                if isinstance(v, VClosure):
                    for x in v.upvars:
                        flat(x)
                else:
                    ups.append(v)
            for u in cvv.upvars:
                flat(u)
            items = [self.norm(st, a) for a in items]
            self.leaf_calls.setdefault(b["def"], []).append((tuple(items) + tuple(ups), st))
            return [(st, self.leaf_app(st, b, tuple(items) + tuple(ups)))]
        # closure body takes self as declared in its MIR (by ref or by value)
        selft = self.f.types[b["locals"][1]]
        if selft["k"] == "ref":
            if not isinstance(cv, VRef):
                c = self.new_cell(st, cvv)
                cv = VRef(c, ())
            selfarg = cv
        else:
            selfarg = cvv
        return self.exec_fn(st, b, [selfarg] + items, cvv.genv if isinstance(cvv, VClosure) else None)

    def apply_callable(self, st, fv, args, ctx):
        """call an abstract callable value (fn item, closure, parser) with positional args"""
        if isinstance(fv, VRef):
            inner = self.read_ref(st, fv)
            if isinstance(inner, (VFn, VClosure, VParser)):
                return self.apply_callable_ref(st, fv, inner, args, ctx)
            raise Unanalysable("call through ref to %r" % (inner,))
        return self.apply_callable_ref(st, None, fv, args, ctx)

    def apply_callable_ref(self, st, ref, fv, args, ctx):
        if isinstance(fv, VFn):
            return self.call_fn(st, fv.callee, list(args), ctx)
        if isinstance(fv, VClosure):
            b = self.f.bodies.get(fv.defn)
            if b is None:
                raise Unanalysable("closure body %s not local" % fv.defn)
            selfv = ref if ref is not None else fv
            return self.call_closure_body(st, b, selfv, VTuple(args) if args else UNIT, ctx)
        if isinstance(fv, VParser):
            return self.ext["__parser__"](self, st, ref, fv, list(args), ctx)
        raise Unanalysable("call of %r" % (fv,))




    def norm(self, st, v):
        """canonical form of a value: bit-vectors that are recognisable patterns become Lin"""
        if isinstance(v, VInt):
            if v.bv is not None:
                l = bv_to_lin(st, v)
                sa = l.single_atom()
                if sa and isinstance(sa[0], tuple) and sa[0] and sa[0][0] == "opqint" and isinstance(sa[0][1], tuple) and sa[0][1] and sa[0][1][0] == "bv":
                    return v        # not a recognisable pattern: keep the bits (an opaque atom would lose them)
                return VInt(v.w, v.s, lin=l)
            return v
        if isinstance(v, VTuple):
            return VTuple([self.norm(st, x) for x in v.items])
        if isinstance(v, VAdt):
            return VAdt(v.adt, v.variant, [self.norm(st, x) for x in v.fields])
        return v

    def merge_results(self, outs, ncell0):
        """join paths that returned the same value with the same side effects and whose path
        conditions differ in the set of a single atom"""
        groups = {}
        order = []
        for (st, rv) in outs:
            sig = (valkey(rv), st.events, tuple(f.key() for f in st.pc.facts),
                   tuple(sorted(st.pc.opq.items(), key=repr)),
                   tuple((c, id(v)) for c, v in st.store.items() if c < ncell0),
                   tuple(sorted((c, valkey(v)) for c, v in st.store.items() if c >= ncell0)))
            if sig not in groups:
                groups[sig] = []
                order.append(sig)
            groups[sig].append((st, rv))
        res = []
        for sig in order:
            g = groups[sig]
            changed = True
            while changed and len(g) > 1:
                changed = False
                for i in range(len(g)):
                    for j in range(i + 1, len(g)):
                        a, b = g[i][0].pc.sets, g[j][0].pc.sets
                        keys = set(a) | set(b)
                        diff = [k for k in keys if a.get(k) != b.get(k)]
                        if len(diff) <= 1:
                            if diff:
                                k = diff[0]
                                sa = a.get(k) or natural_range(k)
                                sb = b.get(k) or natural_range(k)
                                u = sa.union(sb)
                                if u == natural_range(k):
                                    a.pop(k, None)
                                else:
                                    a[k] = u
                            del g[j]
                            changed = True
                            break
                    if changed:
                        break
            res += g
        return res

    # ---- leaf decoders ------------------------------------------------------------------------
    def arg_set(self, st, a):
        if isinstance(a, VInt):
            return st.lin_set(lin_of(st, a))
        if isinstance(a, VBool):
            d = st.decide(a.cond)
            return IntSet.range(0, 1) if d is None else IntSet.of(int(d))
        if isinstance(a, VSlice):
            # for a slice argument the summary depends on the possible lengths
            return ("len", st.lin_set(a.len).intersect(IntSet.range(0, MAXLEN)))
        return None

    def leaf_summary(self, defn, argsets):
        """partition of the leaf's argument space into (St, result) paths; cached"""
        key = (defn, tuple(None if s is None else (s.iv if isinstance(s, IntSet) else ("len", s[1].iv)) for s in argsets))
        cache = self.__dict__.setdefault("_leaf_cache", {})
        if key in cache:
            return cache[key]
        b = self.f.bodies[defn]
        sub = Interp(self.f, self.ext, stubs=self.stubs, inline_leaves=True, budget=self.budget)
        sub.obl = self.obl
        sub.unknown_ext = self.unknown_ext
        sub.visited_bodies = self.visited_bodies
        sub.call_stack = list(self.call_stack) + ["<leaf>"]
        st = St()
        is_clo = b["kind"] == "Closure"
        ptys = b["locals"][2 if is_clo else 1:1 + b["arg_count"]]
        vals = []
        atoms = []
        n = 0
        for pt in ptys:
            vals.append(self.sym_scalar(st, pt, "arg%d" % n, argsets[n] if n < len(argsets) else None, atoms))
            n += 1
        if is_clo:
            selft = self.f.types[b["locals"][1]]
            ct = self.f.types[selft["ty"]] if selft["k"] == "ref" else selft
            counter = [n]

            def build(ut):
                utt = self.f.types[ut]
                inner_ix = utt["ty"] if utt["k"] == "ref" else ut
                inner = self.f.types[inner_ix]
                if inner["k"] == "closure":
                    v = VClosure(inner["def"], [build(x) for x in inner.get("upvars", [])])
                else:
                    k = counter[0]
                    v = self.sym_scalar(st, inner_ix, "arg%d" % k, argsets[k] if k < len(argsets) else None, atoms)
                    counter[0] += 1
                if utt["k"] == "ref":
                    c = sub.new_cell(st, v)
                    return VRef(c, ())
                return v
            ups = [build(ut) for ut in ct.get("upvars", [])]
            n = counter[0]
            clo = VClosure(defn, ups)
            if selft["k"] == "ref":
                c = sub.new_cell(st, clo)
                selfarg = VRef(c, ())
            else:
                selfarg = clo
            vals = [selfarg] + vals
        res = sub.exec_fn(st, b, vals)
        out = (res, atoms)
        cache[key] = out
        return out

    def sym_scalar(self, st, tix, name, aset, atoms):
        t = self.f.types[tix]
        if t["k"] in ("int", "char"):
            w, s = (32, False) if t["k"] == "char" else (t["w"], t["s"])
            tr = ty_range(w, s)
            a = ("sym", name, tr.min(), tr.max())
            atoms.append(a)
            if aset is not None:
                st.pc.sets[a] = aset.intersect(tr)
            return VInt(w, s, lin=Lin.atom(a))
        if t["k"] == "bool":
            a = ("sym", name, 0, 1)
            atoms.append(a)
            if aset is not None:
                st.pc.sets[a] = aset
            return VBool(("in", a, IntSet.of(1)))
        if t["k"] == "float":
            atoms.append(None)
            return VFloat(("farg", name))
        if t["k"] == "ref" and self.f.types[t["ty"]]["k"] == "slice":
            atoms.append(None)
            if isinstance(aset, tuple) and aset[0] == "len":
                st.pc.sets[("len", "$" + name)] = aset[1]
            return VSlice("$" + name, Lin.const(0), Lin.atom(("len", "$" + name)))
        raise Unanalysable("leaf parameter type " + t["text"])

    def project_val(self, st, v, proj):
        for p in proj:
            if p[0] == "variant":
                if not (isinstance(v, VAdt) and v.variant == p[1]):
                    return None
            elif p[0] == "f":
                v = v.fields[p[1]] if isinstance(v, VAdt) else v.items[p[1]]
        return v

    def leaf_paths(self, st, app):
        argsets = [self.arg_set(st, a) for a in app.args]
        res, atoms = self.leaf_summary(app.defn, argsets)
        return res, atoms

    def appvar_atom(self, st, app, discrs):
        ds = sorted(discrs)
        return ("appvar", valkey(app), ds[0], ds[-1])

    def app_discrs(self, st, app):
        """discriminants a leaf application can evaluate to; None if it is not an enum value"""
        res, atoms = self.leaf_paths(st, app)
        by = set()
        for (s2, rv) in res:
            rv = self.project_val(s2, rv, app.proj)
            if rv is None:
                continue
            if not isinstance(rv, VAdt):
                return None, atoms
            adt = self.f.adts.get(rv.adt)
            by.add(adt["variants"][rv.variant]["discr"] if adt and adt["variants"] else rv.variant)
        return by, atoms

    def app_cases(self, st, app):
        """split the state by the paths of a leaf application: [(st', concrete projected result)].
        The leaf's own path conditions (on its integer arguments and on the bytes / length of its
        slice arguments) are translated to the caller's atoms."""
        res, atoms = self.leaf_paths(st, app)
        out = []
        for (s2, rv) in res:
            rvp = self.project_val(s2, rv, app.proj)
            if rvp is None:
                continue
            if not (isinstance(rvp, (VBool, VInt)) or (isinstance(rvp, VAdt) and all(isinstance(x, (VInt, VBool)) and (not isinstance(x, VInt) or lin_of(s2, x).is_const()) for x in rvp.fields))):
                raise Unanalysable("leaf result is not a plain value: %r" % (rvp,))
            if isinstance(rvp, VInt) and not lin_of(s2, rvp).is_const():
                raise Unanalysable("leaf result is not a constant on its path: %r" % (rvp,))
            if isinstance(rvp, VBool) and rvp.cond not in (True, False):
                d = s2.decide(rvp.cond)
                if d is None:
                    raise Unanalysable("leaf result is not decided on its path: %r" % (rvp,))
                rvp = VBool(d)
            cur = [st.copy()]
            for i, (a, arg) in enumerate(zip(atoms, app.args)):
                nxt = []
                for s3 in cur:
                    if a is not None:
                        aset = s2.aset(a)
                        if isinstance(arg, VInt):
                            lin = lin_of(s3, arg)
                            if lin.is_const():
                                if aset.contains(lin.c):
                                    nxt.append(s3)
                                continue
                            sa = lin.single_atom()
                            if not sa or abs(sa[1]) != 1:
                                raise Unanalysable("leaf argument is a compound value")
                            at, k, c = sa
                            tr = IntSet([((lo - c) * k, (hi - c) * k) if k > 0 else ((hi - c) * k, (lo - c) * k) for lo, hi in aset.iv])
                            nxt += s3.assume(("in", at, tr), True)
                        elif isinstance(arg, VBool):
                            want = aset.contains(1), aset.contains(0)
                            if want[0]:
                                nxt += s3.copy().assume(arg.cond, True)
                            if want[1]:
                                nxt += s3.copy().assume(arg.cond, False)
                        else:
                            raise Unanalysable("leaf argument %r" % (arg,))
                    else:
                        sl = arg
                        if isinstance(sl, VRef):
                            sl = self.read_ref(s3, sl)
                        if not isinstance(sl, VSlice):
                            raise Unanalysable("leaf argument %r" % (arg,))
                        name = "$arg%d" % i
                        okk = True
                        for at, aset in s2.pc.sets.items():
                            if at[0] == "byte" and at[1] == name:
                                pos = Lin(at[2][1], at[2][2])
                                if not pos.is_const():
                                    raise Unanalysable("leaf constrains a byte at a symbolic position")
                                b = ("byte", sl.buf, (sl.start + pos.c).key())
                                new = s3.aset(b).intersect(aset)
                                if new.is_empty():
                                    okk = False
                                    break
                                s3.pc.sets[b] = new
                            elif at == ("len", name):
                                r = s3.lin_range(sl.len)
                                if sl.len.is_const():
                                    if not aset.contains(sl.len.c):
                                        okk = False
                                        break
                                elif not r.subset_of(aset):
                                    raise Unanalysable("leaf path depends on the length of a slice of symbolic length")
                        if okk:
                            nxt.append(s3)
                cur = nxt
            for s3 in cur:
                out.append((s3, rvp))
        return out

    def leaf_result_variants(self, st, app):
        """possible Result variants of a leaf application, payload kept as a projected VApp"""
        res, _ = self.leaf_paths(st, app)
        vs = set()
        for (s2, rv) in res:
            rv = self.project_val(s2, rv, app.proj)
            if isinstance(rv, VAdt) and rv.adt == RESULT:
                vs.add(rv.variant)
            else:
                raise Unanalysable("leaf %s does not return a Result: %r" % (app.defn, rv))
        return [(vi, VApp(app.defn, app.args, None, app.proj + (("variant", vi), ("f", 0)))) for vi in sorted(vs)]

    def app_proj_type(self, app, proj):
        """type index of a projection of a leaf's result (Result / Option payloads only), or None"""
        b = self.f.bodies.get(app.defn)
        if b is None:
            return None
        ti = b["locals"][0]
        for p in tuple(app.proj) + tuple(proj):
            t = self.f.types[ti]
            if p[0] == "variant":
                cur_variant = p[1]
                continue
            if p[0] == "f":
                if t["k"] != "adt" or p[1] != 0:
                    return None
                if t["def"] == RESULT:
                    ti = t["args"][cur_variant]["ty"]
                elif t["def"] == OPTION and cur_variant == 1:
                    ti = t["args"][0]["ty"]
                else:
                    return None
        return ti

    def app_as_int(self, st, papp):
        """a leaf application whose (projected) result is an integer, as an atom usable in arithmetic;
        the VApp itself when it is not an integer"""
        app, proj = papp, ()
        ti = None
        try:
            ti = self.app_proj_type(VApp(papp.defn, papp.args, None, ()), papp.proj)
        except Exception:
            ti = None
        if ti is not None and self.f.types[ti]["k"] == "int":
            t = self.f.types[ti]
            tr = ty_range(t["w"], t["s"])
            r = None
            try:
                r = self.app_int_range(st, papp)
            except Unanalysable:
                r = None
            lo, hi = (tr.min(), tr.max()) if (r is None or r.is_empty()) else (max(tr.min(), r.min()), min(tr.max(), r.max()))
            return VInt(t["w"], t["s"], lin=Lin.atom(("app", app.defn, (("proj", papp.proj),) + tuple(valkey(a) for a in app.args), lo, hi)))
        return papp

    def app_int_range(self, st, app):
        res, _ = self.leaf_paths(st, app)
        out = IntSet.empty()
        for (s2, rv) in res:
            rv = self.project_val(s2, rv, app.proj)
            if rv is None:
                continue
            if not isinstance(rv, VInt):
                return None
            pw = self.bv_pointwise(s2, rv)
            out = out.union(pw if pw is not None else s2.lin_set(lin_of(s2, rv)))
        return out

    def bv_pointwise(self, st, rv):
        """the exact value set of a bit pattern built from the bits of one atom with at most 256
        possible values (`data | ((!data & 0x20) << 1)`): evaluated value by value"""
        if rv.bv is None:
            return None
        atoms = set()

        def walk(c):
            if c in (0, 1):
                return
            if isinstance(c, tuple) and len(c) == 2 and isinstance(c[1], int) and not isinstance(c[0], str):
                atoms.add(c[0])
            elif isinstance(c, tuple) and isinstance(c[0], str):
                for x in c[1:]:
                    walk(x)
            else:
                raise ValueError
        try:
            for c in rv.bv:
                walk(c)
        except ValueError:
            return None
        if len(atoms) != 1:
            return None
        atom = next(iter(atoms))
        vals = st.aset(atom)
        if vals.size() == INF or vals.size() > 256 or vals.min() < 0:
            return None

        def bit(c, v):
            if c in (0, 1):
                return c
            if not isinstance(c[0], str):
                return (v >> c[1]) & 1
            if c[0] == "not":
                return 1 - bit(c[1], v)
            x, y = bit(c[1], v), bit(c[2], v)
            return {"BitAnd": x & y, "BitOr": x | y, "BitXor": x ^ y}[c[0]]
        out = set()
        for v in vals.values():
            r = 0
            for c in rv.bv:
                r = (r << 1) | bit(c, v)
            if rv.s and r >= (1 << (rv.w - 1)):
                r -= 1 << rv.w
            out.add(r)
        res = IntSet.empty()
        for r in sorted(out):
            res = res.union(IntSet.of(r))
        return res

    def int_range_of(self, st, v):
        if isinstance(v, VInt):
            return st.lin_set(lin_of(st, v))
        if isinstance(v, VApp):
            return self.app_int_range(st, v)
        return None

    def bytes_all_ascii(self, st, v):
        items = None
        if isinstance(v, VSlice) and v.len.is_const() and v.len.c == 0:
            return True
        if isinstance(v, VSeq) and v.term == ("empty",):
            return True
        if isinstance(v, VList):
            items = v.items
        elif isinstance(v, VElems):
            items = [v.elem]
        else:
            return False
        for it in items:
            r = self.int_range_of(st, it)
            if r is None or r.is_empty() or r.min() < 0 or r.max() > 127:
                return False
        return True

    def str_maxlen(self, st, term):
        k = term[0]
        if k == "cstr":
            return len(term[1])
        if k in ("trim_start", "trim_end", "trim", "trim_end_matches", "trim_start_matches", "trim_matches", "substr"):
            return self.str_maxlen(st, term[1])
        if k == "utf8":
            src = term[1]
            if src[0] == "list":
                return len(src) - 2
            if src[0] == "slice" and src[3][0] == "lin" and not src[3][1]:
                return src[3][2]
            if src[0] == "seq" and src[1] == ("empty",):
                return 0
            if src[0] == "elems":
                return None
        return None

    def convert_error(self, st, payload, callee, ctx):
        via = callee.get("via_from")
        if via and via.get("identity"):
            return [(st, payload)]
        if via and via.get("local") and via["def"] in self.f.bodies:
            return self.exec_fn(st, self.f.bodies[via["def"]], [payload])
        return [(st, VOpaque("converted_error"))]

    def is_user_var(self, body, local):
        """a local that carries a source-level variable (has debug info)"""
        for n in body.get("names", []):
            if n["place"]["l"] == local and not n["place"]["p"]:
                return True
        return False

    def run_region(self, st, body, frame, start_bb, stop_bb):
        """execute from start_bb until control returns to stop_bb (the loop header) or leaves the
        function; -> (states at the back edge, [(st, retval)] returned from inside the region)"""
        rg = {"body": body, "frame": frame, "stop": stop_bb, "backs": []}
        self.regions.append(rg)
        rets = []
        try:
            work = [(st, start_bb, 0, {})]
            while work:
                s2, bb, si, visits = work.pop()
                self.run_path(s2, body, frame, bb, si, visits, work, rets)
        finally:
            self.regions.pop()
        return rg["backs"], rets

    def iter_next(self, st, r, it, ctx):
        """Iterator::next on a slice iterator.  A constant-length slice is iterated concretely; a
        symbolic one is summarised by the counted-slice loop rule (DESIGN 2.2)."""
        sl = it.slice
        pos = st.norm(it.pos)
        n = st.norm(sl.len)
        if n.is_const() and pos.is_const():
            if pos.c < n.c:
                cell = self.new_cell(st, VInt(8, False, lin=Lin.atom(("byte", sl.buf, (sl.start + pos.c).key()))))
                self.write_loc(st, r.cell, r.path, it.at(Lin.const(pos.c + 1)))
                item = it.item(Lin.const(pos.c), VRef(cell, ()))
                return [(st, mk_some(item))]
            return [(st, NONE)]
        if not (pos.is_const() and pos.c == 0):
            raise Unanalysable("slice iterator re-entered in the middle of a summarised loop")
        body, frame, hdr, term = ctx["body"], ctx["frame"], ctx["bb"], ctx["term"]
        tgt = term["target"]
        dest = term["dest"]
        self.nloop += 1
        lid = self.nloop
        kk = ("sym", "$k%d" % lid, 0, MAXLEN)
        pre_cells = set(st.store.keys())
        # ---- phase A: one probing iteration (k = 0) to find the loop-carried cells
        backsA = []
        stA = st.copy()
        xs = stA.assume(("le0", -sl.len + 1), True)
        if xs:
            stA = xs[0]
            cellA = self.new_cell(stA, VInt(8, False, lin=Lin.atom(("byte", sl.buf, sl.start.key()))))
            self.write_loc(stA, r.cell, r.path, it.at(Lin.const(1)))
            itemA = it.item(Lin.const(0), VRef(cellA, ()))
            self.write_place(stA, frame, dest, mk_some(itemA))
            saved = (self.obl, self.unknown_ext, self.leaf_calls)
            self.obl, self.unknown_ext, self.leaf_calls = {}, {}, {}
            try:
                backsA, _ = self.run_region(stA, body, frame, tgt, hdr)
            finally:
                self.obl, self.unknown_ext, self.leaf_calls = saved
        induct = {}     # cell -> delta
        seqs = set()
        temps = set()
        folds = {}      # cell -> accumulator atom  (x = op(x, element): a fold over the slice)
        for b in backsA:
            for c in pre_cells:
                if c == r.cell and not r.path:
                    continue
                old, new = st.store[c], b.store.get(c)
                if new is old:
                    continue
                if isinstance(old, VInt) and isinstance(new, VInt):
                    d = lin_of(b, new) - lin_of(st, old)
                    if d.is_const() and induct.get(c, d.c) == d.c and c not in temps:
                        induct[c] = d.c
                        continue
                    induct.pop(c, None)
                    if body["locals"][frame.index(c)] is not None and c in frame and self.is_user_var(body, frame.index(c)):
                        tr0 = ty_range(old.w, old.s)
                        folds[c] = ("sym", "$acc", tr0.min(), tr0.max())
                    else:
                        temps.add(c)
                elif isinstance(old, VSeq) and old.term[0] == "zeros" and isinstance(new, VSeq) and new.term[0] == "zeros" and new.term[1] == old.term[1]:
                    seqs.add(c)
                elif valkey(old) != valkey(new):
                    temps.add(c)
        for c in list(induct):
            if c in temps:
                del induct[c]
        for c in list(folds):
            if c in temps or c in induct:
                del folds[c]
        # ---- phase B: the generic iteration k (repeated until the set of temporaries is stable)
        for _round in range(6):
            stG = st.copy()
            xs = stG.assume(("le0", Lin.atom(kk) - sl.len + 1), True)
            backsG, retsG = [], []
            saved = (self.obl, self.unknown_ext, self.leaf_calls, self.ncell)
            self.obl, self.unknown_ext, self.leaf_calls = dict((k_, _clone_obl(o_)) for k_, o_ in self.obl.items()), dict(self.unknown_ext), dict(self.leaf_calls)
            if xs:
                stG = xs[0]
                for c, d in induct.items():
                    old = st.store[c]
                    stG.store[c] = VInt(old.w, old.s, lin=lin_of(st, old) + Lin.atom(kk, d))
                for c in seqs:
                    old = st.store[c]
                    stG.store[c] = VSeq(("zeros", old.term[1], old.term[2] + (("loop", lid),)), old.cap)
                for c in temps:
                    stG.store[c] = UNINIT
                for c, acc_atom in folds.items():
                    old = st.store[c]
                    stG.store[c] = VInt(old.w, old.s, lin=Lin.atom(acc_atom))
                cellG = self.new_cell(stG, VInt(8, False, lin=Lin.atom(("byte", sl.buf, (sl.start + Lin.atom(kk)).key()))))
                self.write_loc(stG, r.cell, r.path, it.at(Lin.atom(kk) + 1))
                itemG = it.item(Lin.atom(kk), VRef(cellG, ()))
                self.write_place(stG, frame, dest, mk_some(itemG))
                stG.event("loop_iter", lid)
                backsG, retsG = self.run_region(stG, body, frame, tgt, hdr)
            new_temps = set()
            for b in backsG:
                for c in pre_cells:
                    if c in induct or c in seqs or c in temps or c in folds or (c == r.cell):
                        continue
                    if b.store.get(c) is not st.store[c] and valkey(b.store.get(c)) != valkey(st.store[c]):
                        new_temps.add(c)
            if not new_temps:
                break
            # discard this round (its obligations were evaluated with stale temporaries)
            self.obl, self.unknown_ext, self.leaf_calls = saved[0], saved[1], saved[2]
            temps |= new_temps
        else:
            raise Unanalysable("loop temporaries do not stabilise", (body["def"], hdr))
        summary = []
        for b in backsG:
            for c, d in induct.items():
                old = st.store[c]
                want = lin_of(st, old) + Lin.atom(kk, d) + d
                got = b.store.get(c)
                if not isinstance(got, VInt) or not (b.norm(lin_of(b, got) - want)).is_const() or b.norm(lin_of(b, got) - want).c != 0:
                    raise Unanalysable("loop-carried variable is not a linear induction", (body["def"], hdr))
            writes = {}
            for c in seqs:
                old = st.store[c]
                got = b.store.get(c)
                base = old.term[2] + (("loop", lid),)
                if not (isinstance(got, VSeq) and got.term[0] == "zeros" and got.term[2][:len(base)] == base):
                    raise Unanalysable("buffer written in the loop is not an accumulation", (body["def"], hdr))
                writes[c] = got.term[2][len(base):]
            summary.append((b, writes))
        # accumulator cells: the step must be the same function of (accumulator, element) on every path
        fold_ops = {}
        elem_atom = ("byte", sl.buf, (sl.start + Lin.atom(kk)).key())
        for c, acc_atom in folds.items():
            ops = set()
            for b in backsG:
                got = b.store.get(c)
                if not isinstance(got, VInt):
                    raise Unanalysable("accumulator of unexpected type", (body["def"], hdr))
                ops.add(_subst_key(valkey(self.norm(b, got)), elem_atom, ("sym", "$elem", 0, 255)))
            if len(ops) != 1 or len(backsG) != 1 or retsG:
                raise Unanalysable("loop-carried variable is neither a linear induction nor a uniform fold", (body["def"], hdr))
            fold_ops[c] = ops.pop()
        self.loops[lid] = {"kk": kk, "slice": sl, "backs": summary, "rets": retsG, "induct": induct, "seqs": seqs, "def": body["def"], "hdr": hdr, "folds": fold_ops}
        # results returned from inside the loop body belong to the enclosing function
        for (s2, rv) in retsG:
            s2.event("loop_return", lid)
            ctx["results"].append((s2, rv))
        # ---- exit state
        stE = st.copy()
        for c, d in induct.items():
            old = st.store[c]
            stE.store[c] = VInt(old.w, old.s, lin=lin_of(st, old) + sl.len.scale(d))
        for c in seqs:
            old = st.store[c]
            stE.store[c] = VSeq(("zeros", old.term[1], old.term[2] + (("loopsum", lid),)), old.cap)
        for c in temps:
            stE.store[c] = UNINIT
        for c, op in fold_ops.items():
            old = st.store[c]
            tr0 = ty_range(old.w, old.s)
            # same term as Iterator::fold over the slice (xform.h_fold)
            stE.store[c] = VInt(old.w, old.s, lin=Lin.atom(("opqint", "fold", valkey(sl), lin_of(st, old).key(), op, tr0.min(), tr0.max())))
        self.write_loc(stE, r.cell, r.path, it.at(sl.len))
        stE.event("loop_done", lid)
        return [(stE, NONE)]

def _subst_key(k, old, new):
    if k == old:
        return new
    if isinstance(k, tuple):
        return tuple(_subst_key(x, old, new) for x in k)
    return k


def _clone_obl(o):
    n = Obligation(o.site, o.kind, o.loc, o.macros)
    n.visits = o.visits
    n.failures = list(o.failures)
    return n


class VApp(Val):
    """result of a leaf decoder applied to argument values (not inlined); proj = projections
    applied to the leaf's result, e.g. (('variant', 0), ('f', 0)) = payload of Ok"""
    __slots__ = ("defn", "args", "ty", "proj")

    def __init__(self, defn, args, ty, proj=()):
        self.defn, self.args, self.ty, self.proj = defn, tuple(args), ty, tuple(proj)

    def __repr__(self):
        return "%s(%s)%s" % (self.defn.split("::", 2)[-1], ", ".join(map(repr, self.args)), "".join("." + str(p[1]) for p in self.proj))

    def key(self):
        return ("app", self.defn, self.proj) + tuple(valkey(a) for a in self.args)


def negate(c):
    if c is True:
        return False
    if c is False:
        return True
    if c[0] == "not":
        return c[1]
    return ("not", c)


def bit_not(c):
    if c == 0:
        return 1
    if c == 1:
        return 0
    return ("not", c) if c[0] != "not" else c[1]


def bit_op(op, x, y):
    if op == "BitAnd":
        if x == 0 or y == 0:
            return 0
        if x == 1:
            return y
        if y == 1:
            return x
        if x == y:
            return x
    elif op == "BitOr":
        if x == 1 or y == 1:
            return 1
        if x == 0:
            return y
        if y == 0:
            return x
        if x == y:
            return x
    elif op == "BitXor":
        if x == 0:
            return y
        if y == 0:
            return x
        if x == y:
            return 0
        if x == 1:
            return bit_not(y)
        if y == 1:
            return bit_not(x)
    return (op, x, y)
