"""bin/check entry point:  python -m aislint.main <Cxx> <quick|thorough>"""
from __future__ import annotations
import sys, importlib, traceback
from .ctx import Ctx
from .report import Check
from .interp import Unanalysable

LEVEL = {
    "C01": "proof", "C02": "proof", "C03": "translation_validation", "C04": "translation_validation",
    "C05": "model_checking", "C06": "model_checking", "C07": "translation_validation", "C08": "translation_validation",
    "C09": "translation_validation", "C10": "translation_validation", "C11": "translation_validation",
    "C12": "translation_validation", "C13": "translation_validation", "C14": "translation_validation",
    "C15": "proof", "C16": "translation_validation", "C17": "proof", "C18": "translation_validation",
    "C19": "translation_validation", "C20": "proof",
}


def main(argv):
    pid, tier = argv[1], (argv[2] if len(argv) > 2 else "quick")
    chk = Check(pid, tier, LEVEL[pid])
    ctx = Ctx(tier)
    try:
        from .ctx import contracts_valid
        import os
        okc, msg = contracts_valid(os.environ.get("AIS_REPO", "/repo"))
        chk.assumptions.append("contracts: " + msg)
        if not okc:
            chk.violation("%s/contracts-not-validated" % pid, "reason=unanalysable: contracts not validated for this dependency version: " + msg)
            return chk.finish()
        mod = importlib.import_module(".rules." + pid.lower(), __package__)
        mod.run(ctx, chk)
        # the facts come from a build with debug assertions on; when compiling them out changes the
        # MIR of anything analysed, the property is decided for that build as well
        diff = ctx.profile_dependent()
        if diff:
            chk.note("MIR differs without debug assertions for %s: rule evaluated on both builds" % (diff,))
            chk.tag = "[build without debug assertions] "
            mod.run(Ctx(tier, profile="nd"), chk)
            chk.tag = ""
        else:
            chk.note("MIR of every analysed crate is byte-identical with and without debug assertions")
        if hasattr(ctx, "_both"):
            chk.cov["std_plus_alloc"] = "MIR differs from std: analysed as a fourth configuration" if ctx._both else "MIR identical to std (compared in full): covered by std"
        chk.cov["profiles"] = ["debug-assertions on"] + (["debug-assertions off"] if diff else ["debug-assertions off (identical MIR)"])
    except Unanalysable as u:
        chk.violation("%s/unanalysable/%s" % (pid, u.what[:120]), "reason=unanalysable: %s" % u.what,
                      {"where": u.where, "trace": traceback.format_exc()[-1500:]})
    except SystemExit as e:    # fail closed: the facts could not be produced (the tree does not build,
        # or the driver cannot process it): nothing was decided, which is never a pass
        chk.violation("%s/facts-unavailable" % pid, "reason=unanalysable: %s" % (e.code,), {"detail": str(e.code)})
    except Exception as e:     # fail closed: an analyser crash is never a pass
        chk.violation("%s/internal-error/%s" % (pid, type(e).__name__), "reason=unanalysable (analyser error): %r" % (e,),
                      {"trace": traceback.format_exc()[-3000:]})
    return chk.finish()


if __name__ == "__main__":
    sys.exit(main(sys.argv))
