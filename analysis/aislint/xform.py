"""Transformers (abstract effect + panic contract) for external callees: nom 7.1.3,
heapless 0.7.17, core / alloc / std.  Written from the pinned sources.

A handler has the signature  h(I, st, callee, target, args, ctx) -> list of (st, retval).
It must not mutate `st` before it may raise NeedSplit (st is a private copy per call anyway).
"""
from __future__ import annotations
from .domains import IntSet, Lin, INF
from .values import *
from .interp import (Unanalysable, NeedSplit, lin_of, mk_const, mk_ok, mk_err, mk_some, NONE,
                     OPTION, RESULT, CONTROLFLOW, NOM_ERR, VApp, negate, ty_range, MAXLEN, bv_of)

EXT = {}
CONTRACT = {}   # key -> 'total' | 'pre' | 'panics' | 'opaque-total'


def ext(*keys, contract="total"):
    def deco(f):
        for k in keys:
            EXT[k] = f
            CONTRACT[k] = contract
        return f
    return deco


def _short_self(t):
    head, lt, rest = t.partition("<")
    return head.rsplit("::", 1)[-1] + lt + rest


def xkeys(callee, target):
    """candidate registry keys for a call, most specific first.  Inherent methods are keyed
    crate:SelfType::method (the impl index in the def path is not stable)."""
    ks = []
    for c in (target, callee):
        d = c["def"]
        if "{impl#" in d and c.get("impl_self"):
            ks.append("%s:%s::%s" % (c.get("krate") or d.split("::", 1)[0], _short_self(c["impl_self"]), d.rsplit("::", 1)[1]))
        ks.append(d)
    return ks


def nom_err(I, kind, payload=None):
    vi = I.f.adt_variant_index(NOM_ERR, kind)
    return mk_err(VAdt(NOM_ERR, vi, (payload if payload is not None else VOpaque("nom_error"),)))


def const_of(st, v, what):
    if not isinstance(v, VInt):
        raise Unanalysable("%s: not an integer: %r" % (what, v))
    l = lin_of(st, v)
    if l.is_const():
        return l.c
    s = st.lin_set(l)
    if s.is_single():
        return s.single()
    return None


def split_on_lin(st, lin, what):
    """force lin to be decided <=0 / >0 by splitting"""
    sa = lin.single_atom()
    if sa:
        a, k, c = sa
        from .domains import ceil_div
        if k > 0:
            s = IntSet.range(-INF, (-c) // k)
        else:
            s = IntSet.range(ceil_div(c, -k), INF)
        cur = st.aset(a)
        raise NeedSplit(a, [cur.intersect(s), cur.minus(s)])
    raise NeedSplit(fact=lin)


def decide_le0(st, lin, what):
    d = st.decide(("le0", lin))
    if d is None:
        split_on_lin(st, lin, what)
    return d


def deref(I, st, v):
    while isinstance(v, (VRef, VBox)):
        v = I.read_ref(st, v) if isinstance(v, VRef) else v.inner
    return v


# ================================================================================================
# generic dispatcher used by Interp.call_fn for externals

def dispatch(I, st, callee, target, args, ctx):
    for k in xkeys(callee, target):
        h = EXT.get(k)
        if h is not None:
            return h(I, st, callee, target, args, ctx)
    return unknown_external(I, st, callee, target, args, ctx)


def unknown_external(I, st, callee, target, args, ctx):
    k = xkeys(callee, target)[0]
    I.unknown_ext.setdefault(k, []).append((ctx["body"]["def"], ctx["term"].get("loc")))
    st.event("extcall", k, tuple((a.cell, a.path) if isinstance(a, VRef) else None for a in args))
    # whatever the callee can reach through a `&mut` argument is unknown afterwards (a `retain`
    # on the list a decoder has just parsed must not leave the list looking as parsed)
    # (the tool's calls into the library itself are the exception: what `AisParser::parse` does to
    # the parser is decided by the library analysis, C20 clauses (e) and (f))
    if not (k.startswith("ais:") or k.startswith("ais::")):
        for a in args:
            if isinstance(a, VRef) and a.mut:
                I.write_loc(st, a.cell, a.path, VOpaque("havoc:" + k, None))
    dest = ctx["term"]["dest"]
    ty = ctx["body"]["locals"][dest["l"]] if not dest["p"] else None
    return [(st, VOpaque("ext:" + k, ty))]


STUB_PRECONDITIONS = {
    # local path (without the crate name) -> (argument index, allowed values, description)
    "messages::unarmor": (1, IntSet.range(0, 5), "messages::unarmor (fill count 0..5)"),
}


def stub(I, st, callee, target, args, ctx):
    """a local function deliberately not entered (analysed under its own root): opaque Result"""
    key = target["def"]
    def argkey(a):
        if isinstance(a, VRef):
            try:
                return ("refto", valkey(I.read_ref(st, a)))
            except Exception:
                return valkey(a)
        return valkey(a)
    st.event("call", key, tuple(argkey(a) for a in args))
    # assume/guarantee: the callee is analysed as a root of its own under stated assumptions on its
    # arguments; the call site must establish them
    pre = STUB_PRECONDITIONS.get(key.split("::", 1)[-1])
    if pre is not None:
        idx, allowed, what = pre
        aset = I.arg_set(st, args[idx]) if idx < len(args) else None
        okk = isinstance(aset, IntSet) and aset.subset_of(allowed)
        panic_obligation(I, st, ctx, "precondition of " + what, okk, None if okk else "argument %d may be %r, the callee is only proved total for %r" % (idx, aset, allowed))
    dest = ctx["term"]["dest"]
    ty = ctx["body"]["locals"][dest["l"]] if not dest["p"] else None
    n = len([e for e in st.events if e[0] == "call" and e[1] == key])
    return [(st, VOpaque("stub:%s#%d" % (key, n), ty))]


# ================================================================================================
# Fn* traits and nom::Parser::parse: calling an abstract callable

@ext("core::ops::function::Fn::call", "core::ops::function::FnMut::call_mut",
     "core::ops::function::FnOnce::call_once")
def h_fn_call(I, st, callee, target, args, ctx):
    selfv, tup = args
    items = list(tup.items) if isinstance(tup, VTuple) else []
    return I.apply_callable(st, selfv, items, ctx)


@ext("nom::internal::Parser::parse")
def h_parser_parse(I, st, callee, target, args, ctx):
    return I.apply_callable(st, args[0], [args[1]], ctx)


# ================================================================================================
# nom combinator constructors

def _mk(kind, n_args=None, info=None):
    def h(I, st, callee, target, args, ctx):
        inf = {"generics": callee.get("args"), "site": (ctx["body"]["def"], ctx["bb"]), "loc": ctx["term"].get("loc")}
        return [(st, VParser(kind, args, inf))]
    return h


for _k, _kind in [
    ("nom::bits::complete::take", "take"),
    ("nom::bits::bits", "bits"),
    ("nom::combinator::map", "map"),
    ("nom::combinator::map_res", "map_res"),
    ("nom::combinator::opt", "opt"),
    ("nom::combinator::peek", "peek"),
    ("nom::combinator::verify", "verify"),
    ("nom::combinator::all_consuming", "all_consuming"),
    ("nom::combinator::recognize", "recognize"),
    ("nom::combinator::cut", "cut"),
    ("nom::branch::alt", "alt"),
    ("nom::bytes::complete::tag", "tag"),
    ("nom::bytes::complete::take", "take_bytes"),
    ("nom::bytes::complete::take_until", "take_until"),
    ("nom::multi::count", "count"),
    ("nom::multi::many_m_n", "many_m_n"),
    ("nom::sequence::delimited", "delimited"),
    ("nom::combinator::map_parser", "map_parser"),
    ("nom::sequence::terminated", "terminated"),
    ("nom::sequence::preceded", "preceded"),
    ("nom::sequence::pair", "pair"),
    ("nom::sequence::tuple", "tuple"),
    ("nom::character::complete::char", "char"),
]:
    EXT[_k] = _mk(_kind)
    CONTRACT[_k] = "total"


def ok_pair(rest, val):
    return mk_ok(VTuple((rest, val)))


def is_ok(v):
    return isinstance(v, VAdt) and v.adt == RESULT and v.variant == 0


def is_err(v):
    return isinstance(v, VAdt) and v.adt == RESULT and v.variant == 1


def err_kind(I, v):
    """'Incomplete' | 'Error' | 'Failure' | None(opaque) of a nom Err result"""
    e = v.fields[0]
    if isinstance(e, VAdt) and e.adt == NOM_ERR:
        return I.f.adts[NOM_ERR]["variants"][e.variant]["name"]
    return None


def apply_parser(I, st, ref, pv, args, ctx):
    """apply a nom closure value to its input -> [(st, IResult)]"""
    kind = pv.kind
    inp = args[0]
    f = PARSERS.get(kind)
    if f is None:
        raise Unanalysable("no transformer for nom combinator " + kind)
    return f(I, st, pv, inp, ctx)


def run(I, st, p, inp, ctx):
    """apply abstract callable p (value) to one input"""
    return I.apply_callable(st, p, [inp], ctx)


PARSERS = {}


def parser(kind):
    def deco(f):
        PARSERS[kind] = f
        return f
    return deco


def cursor_parts(I, st, inp):
    if not (isinstance(inp, VTuple) and len(inp.items) == 2 and isinstance(inp.items[0], VSlice) and isinstance(inp.items[1], VInt)):
        raise Unanalysable("bit cursor expected, got %r" % (inp,))
    sl, off = inp.items
    o = const_of(st, off, "bit offset")
    if o is None:
        raise Unanalysable("bit offset not constant: %r" % (off,))
    return sl, o


def bits_remaining(sl, o):
    return sl.len.scale(8) - o


@parser("take")
def p_take(I, st, pv, inp, ctx):
    n = const_of(st, pv.args[0], "take count")
    if n is None:
        # count not constant: split on its (small) value set
        l = lin_of(st, pv.args[0])
        sa = l.single_atom()
        s = st.lin_set(l)
        if sa and abs(sa[1]) == 1 and s.size() <= 64:
            a, k, c = sa
            raise NeedSplit(a, [IntSet.of((v - c) * k) for v in s.values()])
        gen = pv.info.get("generics")
        oty = I.int_ty(gen[1]["ty"]) if gen and "ty" in gen[1] else None
        if oty is not None and not s.is_empty() and s.max() >= oty[0] + 8:
            # nom's take shifts the first chunk by count - (8 - offset) >= count - 8 bits
            raise Unanalysable("bits::take count %r can reach %d, more than the %d-bit output can hold: nom shifts left by "
                               "the excess (overflow panic in checked builds, silent truncation otherwise)" % (pv.args[0], s.max(), oty[0]))
        raise Unanalysable("take count not constant: %r" % (pv.args[0],))
    sl, o = cursor_parts(I, st, inp)
    gen = pv.info["generics"]
    oty = I.int_ty(gen[1]["ty"]) if gen and "ty" in gen[1] else None
    if oty is None:
        raise Unanalysable("take output type unknown")
    w, s = oty
    if n == 0:
        st.event("take", sl.buf, None, 0, (w, s), pv.info["site"])
        return [(st, ok_pair(inp, mk_const(0, w, s)))]
    # Eof iff len*8 < n + o
    need = n + o
    lin = sl.len.scale(8) - need + 1      # <= 0  <=> Eof
    eof = decide_le0(st, lin, "take eof")
    if eof:
        st.event("take_eof", sl.buf, (sl.start.scale(8) + o).key(), n, pv.info["site"])
        return [(st, nom_err(I, "Error", VOpaque("Eof")))]
    pos = sl.start.scale(8) + o
    posk = pos.c if pos.is_const() else pos.key()
    # panic contract: first chunk shift = n - (8 - o) must be < bits(O) when n >= 8 - o;
    # the later chunks shift by less.  (nom compiled with overflow checks in the dev profile)
    site = pv.info["site"]
    if n >= 8 - o:
        shift = n - (8 - o)
        okk = shift < w
        I.obligation(st, {"def": site[0]}, ("take", site[1]), "nom::bits::take shift", pv.info["loc"], [], okk,
                     None if okk else "take(%d) into %d-bit output at bit offset %d shifts by %d" % (n, w, o, shift))
    else:
        I.obligation(st, {"def": site[0]}, ("take", site[1]), "nom::bits::take shift", pv.info["loc"], [], True)
    maxbits = w - 1 if s else w
    if n <= maxbits:
        val = VInt(w, s, lin=Lin.atom(("bits", sl.buf, posk, n)))
    elif n <= w:
        # fills a signed type completely: value is the two's complement reading
        val = VInt(w, s, lin=Lin.atom(("sext", ("bits", sl.buf, posk, n), n, -(1 << (n - 1)), (1 << (n - 1)) - 1)))
    else:
        tr = ty_range(w, s)
        val = VInt(w, s, lin=Lin.atom(("opqint", ("truncated_take", sl.buf, posk, n, w), tr.min(), tr.max())))
    cnt = need // 8
    rest = VTuple((VSlice(sl.buf, sl.start + cnt, sl.len - cnt), mk_const(need % 8, 64, False)))
    st.event("take", sl.buf, posk, n, (w, s), site)
    return [(st, ok_pair(rest, val))]


@parser("bits")
def p_bits(I, st, pv, inp, ctx):
    if not isinstance(inp, VSlice):
        raise Unanalysable("bits() input %r" % (inp,))
    out = []
    cur = VTuple((inp, mk_const(0, 64, False)))
    for s2, r in run(I, st, pv.args[0], cur, ctx):
        if is_ok(r):
            (c2, val) = r.fields[0].items
            if isinstance(c2, VTuple) and isinstance(c2.items[0], VSlice):
                rest, off = c2.items
                o = const_of(s2, off, "bits offset")
                if o is None:
                    # symbolic cursor (after a run of symbolic length): offset = X mod 8,
                    # rest = buf[X div 8 ..]; the final slice is in bounds iff X <= 8*len(buf)
                    ol = lin_of(s2, off)
                    sa = ol.single_atom()
                    okk = False
                    if sa and sa[1] == 1 and sa[2] == 0 and sa[0][0] == "mod" and sa[0][2] == 8:
                        X = sa[0][1]
                        want = Lin.atom(("fdiv", X, 8, 0, MAXLEN))
                        if rest.start == want:
                            total = rest.start + rest.len
                            okk = s2.decide(("le0", X - total.scale(8))) is True
                    site = pv.info["site"]
                    I.obligation(s2, {"def": site[0]}, ("bits", site[1]), "nom::bits::bits final slice", pv.info["loc"], [], okk,
                                 None if okk else "symbolic cursor not provably inside the buffer")
                    out.append((s2, ok_pair(VSlice(rest.buf, Lin.atom(("opqint", "rest", 0, MAXLEN)), Lin.atom(("opqint", "restlen", 0, MAXLEN))), val)))
                    continue
                idx = o // 8 + (0 if o % 8 == 0 else 1)
                # rest.slice(idx..) panics iff idx > rest.len
                lin = -rest.len + idx   # <= 0 <=> fine
                d = s2.decide(("le0", lin))
                site = pv.info["site"]
                I.obligation(s2, {"def": site[0]}, ("bits", site[1]), "nom::bits::bits final slice", pv.info["loc"], [], d is True,
                             None if d is True else "cursor offset %d with possibly empty rest" % o)
                rest2 = VSlice(rest.buf, rest.start + idx, rest.len - idx)
                out.append((s2, ok_pair(rest2, val)))
            else:
                raise Unanalysable("bits(): inner parser returned %r" % (c2,))
        elif is_err(r):
            k = err_kind(I, r)
            if k is None:
                out.append((s2, mk_err(VOpaque("nom_err_converted"))))
            else:
                out.append((s2, nom_err(I, k, VOpaque("converted"))))
        else:
            raise Unanalysable("bits(): result %r" % (r,))
    return out


@parser("map")
def p_map(I, st, pv, inp, ctx):
    out = []
    for s2, r in run(I, st, pv.args[0], inp, ctx):
        if is_ok(r):
            rest, v = r.fields[0].items
            for s3, r2 in I.apply_callable(s2, pv.args[1], [v], ctx):
                out.append((s3, ok_pair(rest, r2)))
        else:
            out.append((s2, r))
    return out


def result_variants(I, st, v):
    """possible (variant, payload) of a Result-typed abstract value"""
    if isinstance(v, VAdt) and v.adt == RESULT:
        return [(v.variant, v.fields[0])]
    if isinstance(v, VApp):
        outs = I.leaf_result_variants(st, v)
        return outs
    if isinstance(v, VOpaque):
        return [(0, VOpaque(v.tag + ".ok")), (1, VOpaque(v.tag + ".err"))]
    raise Unanalysable("Result value %r" % (v,))


@parser("map_res")
def p_map_res(I, st, pv, inp, ctx):
    out = []
    for s2, r in run(I, st, pv.args[0], inp, ctx):
        if is_ok(r):
            rest, v = r.fields[0].items
            for s3, r2 in I.apply_callable(s2, pv.args[1], [v], ctx):
                vs = result_variants(I, s3, r2)
                for (vi, payload) in vs:
                    s4 = s3 if len(vs) == 1 else s3.copy()
                    if len(vs) > 1:
                        s4.pc.opq[("res", valkey(r2))] = (vi == 0)
                    if vi == 0:
                        out.append((s4, ok_pair(rest, payload)))
                    else:
                        out.append((s4, nom_err(I, "Error", VOpaque("MapRes"))))
        else:
            out.append((s2, r))
    return out


@parser("verify")
def p_verify(I, st, pv, inp, ctx):
    out = []
    for s2, r in run(I, st, pv.args[0], inp, ctx):
        if is_ok(r):
            rest, v = r.fields[0].items
            c = I.new_cell(s2, v)
            for s3, b in I.apply_callable(s2, pv.args[1], [VRef(c, ())], ctx):
                if not isinstance(b, VBool):
                    if isinstance(b, VApp):
                        b = VBool(("opq", ("app", valkey(b))))
                    else:
                        raise Unanalysable("verify predicate returned %r" % (b,))
                d = s3.decide(b.cond)
                if d is True or d is None:
                    for s4 in s3.assume(b.cond, True):
                        vs = s4.lin_set(lin_of(s4, v)) if isinstance(v, VInt) else None
                        s4.event("verify", valkey(v), True, vs)
                        out.append((s4, ok_pair(rest, v)))
                if d is False or d is None:
                    for s4 in s3.assume(b.cond, False):
                        out.append((s4, nom_err(I, "Error", VOpaque("Verify"))))
        else:
            out.append((s2, r))
    return out


@parser("opt")
def p_opt(I, st, pv, inp, ctx):
    out = []
    n0 = len(st.events)
    for s2, r in run(I, st, pv.args[0], inp, ctx):
        if is_ok(r):
            rest, v = r.fields[0].items
            out.append((s2, ok_pair(rest, mk_some(v))))
        else:
            k = err_kind(I, r)
            if k == "Error":
                _abandon(s2, n0)
                out.append((s2, ok_pair(inp, NONE)))
            elif k is None:
                raise Unanalysable("opt(): opaque error kind")
            else:
                out.append((s2, r))
    return out


@parser("peek")
def p_peek(I, st, pv, inp, ctx):
    out = []
    for s2, r in run(I, st, pv.args[0], inp, ctx):
        if is_ok(r):
            rest, v = r.fields[0].items
            out.append((s2, ok_pair(inp, v)))
        else:
            out.append((s2, r))
    return out


@parser("terminated")
def p_terminated(I, st, pv, inp, ctx):
    out = []
    for s2, r in run(I, st, pv.args[0], inp, ctx):
        if is_ok(r):
            rest, v = r.fields[0].items
            for s3, r2 in run(I, s2, pv.args[1], rest, ctx):
                if is_ok(r2):
                    out.append((s3, ok_pair(r2.fields[0].items[0], v)))
                else:
                    out.append((s3, r2))
        else:
            out.append((s2, r))
    return out


@parser("preceded")
def p_preceded(I, st, pv, inp, ctx):
    out = []
    for s2, r in run(I, st, pv.args[0], inp, ctx):
        if is_ok(r):
            rest, _ = r.fields[0].items
            out += run(I, s2, pv.args[1], rest, ctx)
        else:
            out.append((s2, r))
    return out


@parser("delimited")
def p_delimited(I, st, pv, inp, ctx):
    out = []
    for s2, r in run(I, st, pv.args[0], inp, ctx):
        if not is_ok(r):
            out.append((s2, r))
            continue
        rest, _ = r.fields[0].items
        for s3, r2 in run(I, s2, pv.args[1], rest, ctx):
            if not is_ok(r2):
                out.append((s3, r2))
                continue
            rest2, v = r2.fields[0].items
            for s4, r3 in run(I, s3, pv.args[2], rest2, ctx):
                if is_ok(r3):
                    out.append((s4, ok_pair(r3.fields[0].items[0], v)))
                else:
                    out.append((s4, r3))
    return out


@parser("pair")
def p_pair(I, st, pv, inp, ctx):
    out = []
    for s2, r in run(I, st, pv.args[0], inp, ctx):
        if not is_ok(r):
            out.append((s2, r))
            continue
        rest, v1 = r.fields[0].items
        for s3, r2 in run(I, s2, pv.args[1], rest, ctx):
            if is_ok(r2):
                rest2, v2 = r2.fields[0].items
                out.append((s3, ok_pair(rest2, VTuple((v1, v2)))))
            else:
                out.append((s3, r2))
    return out


@parser("alt")
def p_alt(I, st, pv, inp, ctx):
    alts = pv.args[0]
    if not isinstance(alts, VTuple):
        raise Unanalysable("alt() of %r" % (alts,))
    out = []
    pending = [st]
    for i, p in enumerate(alts.items):
        nxt = []
        for s in pending:
            n0 = len(s.events)
            for s2, r in run(I, s, p, inp, ctx):
                if is_ok(r):
                    out.append((s2, r))
                else:
                    k = err_kind(I, r)
                    if k == "Error":
                        _abandon(s2, n0)
                        nxt.append(s2)
                    elif k is None:
                        raise Unanalysable("alt(): opaque error kind")
                    else:
                        out.append((s2, r))
        pending = nxt
    for s in pending:
        out.append((s, nom_err(I, "Error", VOpaque("Alt"))))
    return out


def elem_parser_shape(I, st, p):
    """recognise  map_res/map(take(k), f)  /  take(k): (k, O, f, kind) or None"""
    p = deref(I, st, p)
    if not isinstance(p, VParser):
        return None
    if p.kind == "take":
        k = const_of(st, p.args[0], "k")
        return (k, p, None, "take") if k else None
    if p.kind in ("map", "map_res"):
        inner = deref(I, st, p.args[0])
        if isinstance(inner, VParser) and inner.kind == "take":
            k = const_of(st, inner.args[0], "k")
            if k:
                return (k, inner, p.args[1], p.kind)
    return None


def _base_atoms(lin):
    out = []
    for a, _ in lin.terms:
        if a[0] in ("fdiv", "mod"):
            out += _base_atoms(a[1])
        else:
            out.append(a)
    return out


def do_count(I, st, p, nval, inp, ctx, cap=None, what="count"):
    """nom::multi::count semantics: apply p exactly n times.  Used for nom's and cross-checked
    against the interpreted local copy (C18)."""
    n = const_of(st, nval, "count")
    if n is not None and n <= 64:
        outs = [(st, inp, [])]
        final = []
        for i in range(n):
            nxt = []
            for (s, cur, acc) in outs:
                for s2, r in run(I, s, p, cur, ctx):
                    if is_ok(r):
                        rest, v = r.fields[0].items
                        nxt.append((s2, rest, acc + [v]))
                    else:
                        k = err_kind(I, r)
                        if k == "Error":
                            final.append((s2, nom_err(I, "Error", VOpaque("Count"))))
                        else:
                            final.append((s2, r))
            outs = nxt
        for (s, cur, acc) in outs:
            final.append((s, ok_pair(cur, VList(acc, cap))))
        return final
    if n is not None:
        # a long constant run: handled like a symbolic one (uniform fixed-width element parser)
        shape = elem_parser_shape(I, st, p)
        if shape is None:
            raise Unanalysable("count too large to unroll: %d" % n)
        k, takep, f, kind = shape
        sl, o = cursor_parts(I, st, inp)
        rem = bits_remaining(sl, o)
        enough = decide_le0(st, Lin.const(n * k) - rem, "count bits")
        if not enough:
            return [(st, nom_err(I, "Error", VOpaque("Count")))]
    # n not constant: if it depends on a length with few possible values, enumerate those
    nl0 = lin_of(st, nval)
    for a0 in _base_atoms(nl0):
        cur = st.aset(a0)
        if cur.size() <= 64:
            raise NeedSplit(a0, [IntSet.of(v) for v in cur.values()])
    # symbolic n: only for a uniform fixed-width element parser
    shape = elem_parser_shape(I, st, p)
    if shape is None:
        raise Unanalysable("count with symbolic n over a non-uniform element parser")
    k, takep, f, kind = shape
    sl, o = cursor_parts(I, st, inp)
    nl = lin_of(st, nval)
    rem = bits_remaining(sl, o)
    # enough bits iff n*k <= rem.  Accept n == floor(X / k) with X <= rem  (then n*k <= X <= rem)
    ok = False
    sa = nl.single_atom()
    if sa and sa[1] == 1 and sa[2] == 0 and sa[0][0] == "fdiv" and sa[0][2] == k:
        X = sa[0][1]
        d = st.decide(("le0", X - rem))
        ok = d is True
    elif nl.is_const():
        ok = st.decide(("le0", nl.scale(k) - rem)) is True
    if not ok:
        raise Unanalysable("count(%r): cannot relate symbolic n to the remaining bits" % (nl,))
    pos = sl.start.scale(8) + o
    if not pos.is_const():
        raise Unanalysable("count at symbolic position")
    # element outcome for a generic element
    gen = takep.info["generics"]
    w, s = I.int_ty(gen[1]["ty"])
    elem = VInt(w, s, lin=Lin.atom(("bits", sl.buf, ("elem", pos.c, k), k)))
    evals = []
    if f is None:
        evals = [(st, elem, True)]
        fkey = None
    else:
        for s3, r2 in I.apply_callable(st, f, [elem], ctx):
            if kind == "map_res":
                for (vi, payload) in result_variants(I, s3, r2):
                    evals.append((s3, payload, vi == 0))
            else:
                evals.append((s3, r2, True))
    if any(not okk for (_, _, okk) in evals):
        raise Unanalysable("count with symbolic n: element parser may fail on a value")
    if len(evals) != 1:
        raise Unanalysable("count with symbolic n: element outcome not uniform")
    s3, ev, _ = evals[0]
    # new cursor position: pos + n*k  (symbolic) -- represented through the slice start / offset
    total = nl.scale(k)
    newpos = Lin.const(pos.c) + total
    # we cannot keep (start, offset) exact for a symbolic position; use an opaque-but-sound cursor:
    if newpos.is_const():
        nb = newpos.c // 8
        rest = VTuple((VSlice(sl.buf, Lin.const(nb), sl.len + sl.start - nb), mk_const(newpos.c % 8, 64, False)))
    else:
        rest = VTuple((VSlice(sl.buf, Lin.atom(("fdiv", newpos, 8, 0, MAXLEN)), sl.len - Lin.atom(("fdiv", newpos, 8, 0, MAXLEN)) + sl.start),
                       VInt(64, False, lin=Lin.atom(("mod", newpos, 8)))))
    st2 = s3
    st2.event("take_n", sl.buf, pos.c, k, nl.key(), takep.info["site"])
    return [(st2, ok_pair(rest, VElems(sl.buf, pos.c, k, nl, ev, cap)))]


@parser("count")
def p_count(I, st, pv, inp, ctx):
    return do_count(I, st, pv.args[0], pv.args[1], inp, ctx)


def input_len_key(I, st, v):
    if isinstance(v, VTuple) and isinstance(v.items[0], VSlice):
        sl, off = v.items
        return (sl.len.scale(8) - lin_of(st, off))
    if isinstance(v, VSlice):
        return v.len
    raise Unanalysable("input_len of %r" % (v,))


def do_many_m_n(I, st, mval, maxval, p, inp, ctx, cap=None):
    m = const_of(st, mval, "min")
    M = const_of(st, maxval, "max")
    if m is None or M is None or M > 16:
        raise Unanalysable("many_m_n bounds not constant")
    if m > M:
        return [(st, nom_err(I, "Failure", VOpaque("ManyMN")))]
    final = []
    outs = [(st, inp, [])]
    for count in range(M):
        nxt = []
        for (s, cur, acc) in outs:
            for s2, r in run(I, s, p, cur, ctx):
                if is_ok(r):
                    tail, v = r.fields[0].items
                    l0, l1 = input_len_key(I, s2, cur), input_len_key(I, s2, tail)
                    d = l0 - l1
                    if d.is_const() and d.c == 0:
                        final.append((s2, nom_err(I, "Error", VOpaque("ManyMN"))))
                    elif d.is_const():
                        nxt.append((s2, tail, acc + [v]))
                    else:
                        raise Unanalysable("many_m_n: consumption not constant")
                else:
                    k = err_kind(I, r)
                    if k == "Error":
                        if count < m:
                            final.append((s2, nom_err(I, "Error", VOpaque("ManyMN"))))
                        else:
                            final.append((s2, ok_pair(cur, VList(acc, cap))))
                    elif k is None:
                        raise Unanalysable("many_m_n: opaque error kind")
                    else:
                        final.append((s2, r))
        outs = nxt
    for (s, cur, acc) in outs:
        final.append((s, ok_pair(cur, VList(acc, cap))))
    return final


@parser("many_m_n")
def p_many_m_n(I, st, pv, inp, ctx):
    return do_many_m_n(I, st, pv.args[0], pv.args[1], pv.args[2], inp, ctx)


@ext("nom::traits::InputLength::input_len")
def h_input_len(I, st, callee, target, args, ctx):
    v = deref(I, st, args[0])
    return [(st, VInt(64, False, lin=input_len_key(I, st, v)))]


EXT["__parser__"] = apply_parser
EXT["__default__"] = dispatch
EXT["__stub__"] = stub


# ================================================================================================
# core: Try / FromResidual / Into / Default / Option / Result

@ext("core::ops::try_trait::Try::branch")
def h_branch(I, st, callee, target, args, ctx):
    v = args[0]
    cf_cont = I.f.adt_variant_index(CONTROLFLOW, "Continue")
    cf_break = I.f.adt_variant_index(CONTROLFLOW, "Break")
    outs = []
    if isinstance(v, VAdt) and v.adt == RESULT:
        if v.variant == 0:
            return [(st, VAdt(CONTROLFLOW, cf_cont, (v.fields[0],)))]
        return [(st, VAdt(CONTROLFLOW, cf_break, (mk_err(v.fields[0]),)))]
    if isinstance(v, VAdt) and v.adt == OPTION:
        if v.variant == 1:
            return [(st, VAdt(CONTROLFLOW, cf_cont, (v.fields[0],)))]
        return [(st, VAdt(CONTROLFLOW, cf_break, (NONE,)))]
    if isinstance(v, VApp):
        key = ("res", valkey(v))
        cur = st.pc.opq.get(key)
        outs = []
        for (vi, payload) in I.leaf_result_variants(st, v):
            okk = vi == 0
            if cur is not None and cur != okk:
                continue
            s2 = st.copy()
            s2.pc.opq[key] = okk
            s2.event("leaf_result", v.defn, okk)
            if okk:
                outs.append((s2, VAdt(CONTROLFLOW, cf_cont, (payload,))))
            else:
                outs.append((s2, VAdt(CONTROLFLOW, cf_break, (mk_err(payload),))))
        return outs
    if isinstance(v, (VOpaque, VApp)):
        tag = v.tag if isinstance(v, VOpaque) else repr(v)
        key = ("res", valkey(v))
        cur = st.pc.opq.get(key)
        outs = []
        for okk in ((True, False) if cur is None else (cur,)):
            s2 = st.copy()
            s2.pc.opq[key] = okk
            if okk:
                outs.append((s2, VAdt(CONTROLFLOW, cf_cont, (VOpaque(tag + ".ok"),))))
            else:
                outs.append((s2, VAdt(CONTROLFLOW, cf_break, (mk_err(VOpaque(tag + ".err")),))))
        return outs
    raise Unanalysable("Try::branch on %r" % (v,))


@ext("core::ops::try_trait::FromResidual::from_residual")
def h_from_residual(I, st, callee, target, args, ctx):
    v = args[0]
    if isinstance(v, VAdt) and v.adt == RESULT and v.variant == 1:
        # Result<T,F>: FromResidual<Result<Infallible,E>>, F: From<E>.  identity when E == F
        ga = (callee.get("resolved") or callee).get("args") or []
        tys = [g.get("ty") for g in ga if "ty" in g]
        same = False
        # resolved args are [T, F, E] for the impl; unresolved are [Self, Residual]
        r = callee.get("resolved")
        if r and len([g for g in r["args"] if "ty" in g]) == 3:
            t3 = [g["ty"] for g in r["args"] if "ty" in g]
            same = t3[1] == t3[2]
        payload = v.fields[0]
        if same:
            return [(st, mk_err(payload))]
        # error conversion through a From impl: entered if local (category matters for C18)
        conv = I.convert_error(st, payload, callee, ctx)
        return [(s2, mk_err(p2)) for (s2, p2) in conv]
    if isinstance(v, VAdt) and v.adt == OPTION:
        return [(st, NONE)]
    raise Unanalysable("from_residual of %r" % (v,))


@ext("core::convert::Into::into", "core::convert::From::from")
def h_into(I, st, callee, target, args, ctx):
    v = args[0]
    via = callee.get("via_from")
    if via is None and callee["def"].endswith("From::from"):
        via = callee.get("resolved")
    if via is not None:
        if via.get("identity"):
            return [(st, v)]
        if via.get("local") and via["def"] in I.f.bodies:
            return I.call_local(st, I.f.bodies[via["def"]], [v], ctx)
        selft = via.get("impl_self") or ""
        if via["def"].startswith("ais::sentence::") and "AisSentence" in selft and isinstance(v, VOpaque) and ("Option<" in selft or "Result<" in selft):
            # the library's From<AisFragments> for Option / Result<AisSentence>, seen from the tool:
            # Complete -> Some / Ok(sentence), Incomplete -> None / Err (this contract is what C05 checks
            # on the library side)
            frag = I.f.adts.get("ais::sentence::AisFragments")
            if frag and frag.get("variants"):
                ci = [i for i, var in enumerate(frag["variants"]) if var["name"] == "Complete"][0]
                d = I.discriminant(st, v)
                datom = lin_of(st, d).single_atom()[0]
                out = []
                for s2 in st.copy().assume(("in", datom, IntSet.of(ci)), True):
                    payload = VOpaque(v.tag + "#%d.0" % ci)
                    out.append((s2, mk_some(payload) if "Option<" in selft else mk_ok(payload)))
                for s2 in st.copy().assume(("in", datom, IntSet.of(ci)), False):
                    out.append((s2, NONE if "Option<" in selft else mk_err(VOpaque("Incomplete message"))))
                return out
    dest = ctx["term"]["dest"]
    ty = ctx["body"]["locals"][dest["l"]] if not dest["p"] else None
    # the conversion's own target type, from its generic arguments: <Src as Into<T>>::into / <T as From<Src>>::from
    ga = callee.get("args") or []
    tgt = None
    if callee["def"].endswith("Into::into") and len(ga) >= 2 and "ty" in ga[1]:
        tgt = ga[1]["ty"]
    elif callee["def"].endswith("From::from") and len(ga) >= 1 and "ty" in ga[0]:
        tgt = ga[0]["ty"]
    if tgt is not None and (I.f.types[tgt]["k"] == "param" or I.f.types[tgt]["k"] in ("int", "float", "char")):
        ty = tgt
    if ty is not None and I.f.types[ty]["k"] == "param":
        # `T::from(x)` / `x.into()` inside a generic helper: T is known from the call's generic arguments
        ge = I.genv_stack[-1] or {}
        gv = ge.get(I.f.types[ty]["name"])
        if gv is not None and "ty" in gv:
            ty = gv["ty"]
            conc = I.f.types[ty]
            wants = set(x.split("<")[0] for x in (conc.get("def"), conc.get("text"), conc.get("name")) if x)
            cands = [b for b in I.f.bodies.values() if b["def"].endswith("::from") and (b.get("impl_trait") or "").split("<")[0].endswith("convert::From")
                     and (b.get("impl_self") or "").split("<")[0] in wants]
            if len(cands) == 1:
                return I.call_local(st, cands[0], [v], ctx)
    return convert_to(I, st, v, ty, ctx)


def convert_to(I, st, v, ty, ctx):
    t = I.f.types[ty] if ty is not None else None
    if t is None:
        return [(st, VOpaque("into"))]
    if t["k"] == "int" and isinstance(v, (VInt, VBool)):
        return [(st, I.cast(st, "IntToInt", v, ty))]      # uN::from(bool) is `b as uN`
    if t["k"] == "float" and isinstance(v, VInt):
        return [(st, I.cast(st, "IntToFloat", v, ty))]      # f32::from(u16) is the lossless `as f32`
    if t["k"] == "char" and isinstance(v, VInt) and v.w == 8 and not v.s:
        return [(st, VInt(32, False, lin=lin_of(st, v)))]      # char::from(u8): the code point equal to the byte
    txt = t["text"]
    if isinstance(v, VSlice) and ("Vec<u8" in txt):
        return [(st, VSeq(("slice", v.buf, v.start, v.len), vec_cap(I, t)))]
    if isinstance(v, VStr) and ("String" in txt):
        cap = vec_cap(I, t)
        if cap is not None:
            # heapless::String::from(&str) panics iff len > N
            site = (ctx["body"]["def"], ctx["bb"])
            mx = I.str_maxlen(st, v.term)
            okk = mx is not None and mx <= cap
            I.obligation(st, ctx["body"], ctx["bb"], "heapless::String::from capacity", ctx["term"].get("loc"), [], okk,
                         None if okk else "string of up to %s bytes into capacity %d" % (mx, cap))
        return [(st, VStr(v.term, True))]
    if isinstance(v, VStr) and "Error" in txt:
        return [(st, VOpaque("error_from_str", ty))]
    return [(st, VOpaque("into:" + txt, ty))]


def vec_cap(I, t):
    """const-generic capacity of a heapless container type, None for alloc containers"""
    if t["k"] != "adt":
        return None
    if not t["def"].startswith("heapless::"):
        return None
    for g in t["args"]:
        if "const" in g and isinstance(g["const"], int):
            return g["const"]
        if "const" in g and isinstance(g["const"], str):
            ge = I.genv_stack[-1] or {}
            v = ge.get(g["const"])
            if v is not None and isinstance(v.get("const"), int):
                return v["const"]
    return None


@ext("core::default::Default::default")
def h_default(I, st, callee, target, args, ctx):
    dest = ctx["term"]["dest"]
    ty = ctx["body"]["locals"][dest["l"]] if not dest["p"] else None
    r = callee.get("resolved")
    if r and r.get("local") and r["def"] in I.f.bodies:
        return I.call_local(st, I.f.bodies[r["def"]], [], ctx)
    return [(st, default_of(I, ty))]


def default_of(I, ty):
    t = I.f.types[ty]
    txt = t["text"]
    if t["k"] == "ref" and I.f.types[t["ty"]]["k"] == "slice":
        return VSlice(("empty",), Lin.const(0), Lin.const(0))
    if t["k"] == "adt" and t["def"] in ("alloc::vec::Vec", "heapless::vec::Vec"):
        et = I.f.types[t["args"][0]["ty"]]
        if et["k"] == "param":
            ge = I.genv_stack[-1] or {}
            gv = ge.get(et["name"])
            if gv is not None and "ty" in gv:
                et = I.f.types[gv["ty"]]
        cap = vec_cap(I, t)
        if et["k"] == "int" and et["w"] == 8:
            return VSeq(("empty",), cap)
        return VList((), cap)
    if t["k"] == "int":
        return mk_const(0, t["w"], t["s"])
    if t["k"] == "bool":
        return VBool(False)
    if t["k"] == "adt" and t["def"] == OPTION:
        return NONE
    return VOpaque("default:" + txt, ty)


@ext("core:Option<T>::map")
def h_opt_map(I, st, callee, target, args, ctx):
    v, f = args
    if isinstance(v, VAdt) and v.adt == OPTION:
        if v.variant == 0:
            return [(st, NONE)]
        return [(s2, mk_some(r)) for s2, r in I.apply_callable(st, f, [v.fields[0]], ctx)]
    if isinstance(v, VApp):
        forced = force_app(I, st, v)
        if not (len(forced) == 1 and forced[0][1] is v):
            out = []
            for s2, val in forced:
                out += h_opt_map(I, s2, callee, target, [val, f], ctx)
            return out
    if isinstance(v, (VApp, VOpaque)):
        fv = deref(I, st, f)
        ups = []
        if isinstance(fv, VClosure):
            ups = [deref(I, st, u) for u in fv.upvars]
        return [(st, VApp("Option::map", (v, VClosure(fv.defn, ups) if isinstance(fv, VClosure) else fv), None))]
    raise Unanalysable("Option::map on %r" % (v,))


@ext("core:Option<T>::is_some", "core:Option<T>::is_none")
def h_is_some(I, st, callee, target, args, ctx):
    v = deref(I, st, args[0])
    neg = target["def"].endswith("is_none")
    if isinstance(v, VAdt):
        return [(st, VBool((v.variant == 1) != neg))]
    if isinstance(v, VSymEnum):
        c = ("in", v.disc, IntSet.of(1))
        return [(st, VBool(negate(c) if neg else c))]
    raise Unanalysable("is_some on %r" % (v,))


def opaque_result_cases(I, st, v):
    """an opaque Result (the value of a stubbed root): [(st, Ok(payload) | Err(payload))], decided by
    the same opaque fact `?` uses"""
    from .interp import VApp as _VApp
    tag = v.tag if isinstance(v, VOpaque) else repr(v)
    key = ("res", valkey(v))
    cur = st.pc.opq.get(key)
    outs = []
    for okk in ((True, False) if cur is None else (cur,)):
        s2 = st.copy()
        s2.pc.opq[key] = okk
        outs.append((s2, mk_ok(VOpaque(tag + ".ok")) if okk else mk_err(VOpaque(tag + ".err"))))
    return outs


def force_app(I, st, v):
    """a leaf application consumed by an Option/Result adaptor: leaves are pure, so interpret the
    leaf's body on the actual arguments instead of keeping the application opaque -> [(st, value)]"""
    from .interp import VApp as _VApp
    if isinstance(v, _VApp) and not v.proj and v.defn in I.f.bodies:
        b = I.f.bodies[v.defn]
        if b["kind"] != "Closure":
            try:
                return I.exec_fn(st, b, list(v.args))
            except Unanalysable:
                return [(st, v)]
        elif len(v.args) == b["arg_count"] - 1:
            # a closure that captures nothing (`|v| match v { 60 => None, _ => Some(v) }`)
            from .values import VClosure as _VClosure
            cl = _VClosure(v.defn, ())
            selft = I.f.types[b["locals"][1]]
            try:
                if selft["k"] == "ref":
                    cl = VRef(I.new_cell(st, cl), ())
                return I.exec_fn(st, b, [cl] + list(v.args))
            except Unanalysable:
                return [(st, v)]
    return [(st, v)]


def panic_obligation(I, st, ctx, kind, ok, detail=None):
    t = ctx["term"]
    I.obligation(st, ctx["body"], ctx["bb"], kind, t.get("loc"), t.get("macros", []), ok, detail)


@ext("core:Option<T>::unwrap", "core:Option<T>::expect", contract="pre")
def h_opt_unwrap(I, st, callee, target, args, ctx):
    v = args[0]
    if isinstance(v, VAdt) and v.adt == OPTION:
        panic_obligation(I, st, ctx, "Option::unwrap", v.variant == 1, "value is None")
        return [(st, v.fields[0])] if v.variant == 1 else []
    panic_obligation(I, st, ctx, "Option::unwrap", False, "cannot prove Some: %r" % (v,))
    return [(st, VOpaque("unwrap"))]


@ext("core:Result<T, E>::unwrap", "core:Result<T, E>::expect", contract="pre")
def h_res_unwrap(I, st, callee, target, args, ctx):
    v = args[0]
    if isinstance(v, VAdt) and v.adt == RESULT:
        panic_obligation(I, st, ctx, "Result::unwrap", v.variant == 0, "value is Err(%r)" % (v.fields[0],))
        return [(st, v.fields[0])] if v.variant == 0 else []
    panic_obligation(I, st, ctx, "Result::unwrap", False, "cannot prove Ok: %r" % (v,))
    return [(st, VOpaque("unwrap"))]


@ext("core:Result<T, E>::map")
def h_res_map(I, st, callee, target, args, ctx):
    v, f = args
    if isinstance(v, VOpaque):
        out = []
        for s2, r in opaque_result_cases(I, st, v):
            out += h_res_map(I, s2, callee, target, [r, f], ctx)
        return out
    if isinstance(v, VAdt) and v.adt == RESULT:
        if v.variant == 1:
            return [(st, v)]
        return [(s2, mk_ok(r)) for s2, r in I.apply_callable(st, f, [v.fields[0]], ctx)]
    raise Unanalysable("Result::map on %r" % (v,))


@ext("core:Result<T, E>::map_err")
def h_res_map_err(I, st, callee, target, args, ctx):
    v, f = args
    if isinstance(v, VOpaque):
        out = []
        for s2, r in opaque_result_cases(I, st, v):
            out += h_res_map_err(I, s2, callee, target, [r, f], ctx)
        return out
    if isinstance(v, VAdt) and v.adt == RESULT:
        if v.variant == 0:
            return [(st, v)]
        return [(s2, mk_err(r)) for s2, r in I.apply_callable(st, f, [v.fields[0]], ctx)]
    raise Unanalysable("Result::map_err on %r" % (v,))


@ext("core:Result<T, E>::ok")
def h_res_ok(I, st, callee, target, args, ctx):
    v = args[0]
    if isinstance(v, VAdt) and v.adt == RESULT:
        st.event("result_discarded", valkey(v))
        return [(st, mk_some(v.fields[0]) if v.variant == 0 else NONE)]
    raise Unanalysable("Result::ok on %r" % (v,))


# ---- panics ------------------------------------------------------------------------------------

@ext("core::panicking::panic", "core::panicking::panic_fmt", "core::panicking::panic_explicit",
     "core::panicking::unreachable_display", "core::panicking::panic_display",
     "core::panicking::assert_failed", "core::option::unwrap_failed", "core::result::unwrap_failed",
     "core::option::expect_failed", "std::rt::begin_panic", "core::panicking::panic_nounwind",
     contract="panics")
def h_panic(I, st, callee, target, args, ctx):
    panic_obligation(I, st, ctx, "panic call", False, "reachable")
    return []


@ext("std::process::abort", "std::process::exit", "core::intrinsics::abort", contract="panics")
def h_abort(I, st, callee, target, args, ctx):
    panic_obligation(I, st, ctx, "abort/exit", False, "reachable")
    return []


# ---- arithmetic helpers ------------------------------------------------------------------------

@ext("core::cmp::min", "core::cmp::max", "core::cmp::Ord::min", "core::cmp::Ord::max")
def h_min(I, st, callee, target, args, ctx):
    a, b = args
    if not (isinstance(a, VInt) and isinstance(b, VInt)):
        raise Unanalysable("min/max of %r %r" % (a, b))
    la, lb = lin_of(st, a), lin_of(st, b)
    d = decide_le0(st, la - lb, "min")       # a <= b
    is_min = target["def"].endswith("min")
    return [(st, (a if d else b) if is_min else (b if d else a))]


@ext("core::mem::size_of")
def h_size_of(I, st, callee, target, args, ctx):
    t = I.f.types[callee["args"][0]["ty"]]
    if t["k"] == "int":
        return [(st, mk_const(t["w"] // 8, 64, False))]
    raise Unanalysable("size_of " + t["text"])


@ext("core:i32::leading_zeros", "core:u32::leading_zeros", "core:u8::leading_zeros", "core:u16::leading_zeros", "core:u64::leading_zeros", "core:usize::leading_zeros")
def h_leading_zeros(I, st, callee, target, args, ctx):
    from .interp import cell_const
    v = args[0]
    cells = bv_of(st, v)
    n = 0
    for c in cells:
        cc = cell_const(st, c)
        if cc == 0:
            n += 1
            continue
        if cc == 1:
            return [(st, mk_const(n, 32, False))]
        # unknown cell: split when it is the first cell and the top bit of its atom (the only
        # question asked in practice is "is the sign bit set"), else an opaque count
        if n == 0 and isinstance(c, tuple) and not isinstance(c[0], str):
            atom, i = c
            cur = st.aset(atom)
            hi = cur.max()
            if hi != INF and cur.min() >= 0 and int(hi).bit_length() <= i + 1:
                lo_part = cur.intersect(IntSet.range(0, (1 << i) - 1))
                hi_part = cur.intersect(IntSet.range(1 << i, (1 << (i + 1)) - 1))
                raise NeedSplit(atom, [lo_part, hi_part])
        return [(st, VInt(32, False, lin=Lin.atom(("lz", valkey(v), n, len(cells)))))]
    return [(st, mk_const(len(cells), 32, False))]


@ext("core::ops::arith::Sub::sub", "core::ops::arith::Add::add", "core::ops::arith::Mul::mul", contract="pre")
def h_arith(I, st, callee, target, args, ctx):
    a, b = deref(I, st, args[0]), deref(I, st, args[1])
    op = {"sub": "Sub", "add": "Add", "mul": "Mul"}[target["def"].rsplit("::", 1)[1]]
    r = I.binop(st, op + "WithOverflow", a, b)
    val, over = r.items
    d = st.decide(over.cond)
    panic_obligation(I, st, ctx, "Overflow(%s) in operator impl" % op, d is False,
                     None if d is False else "cannot prove no overflow")
    if d is True:
        return []
    outs = st.assume(over.cond, False) if d is None else [st]
    return [(s, val) for s in outs]


@ext("core::cmp::PartialEq::eq", "core::cmp::PartialEq::ne")
def h_eq(I, st, callee, target, args, ctx):
    a, b = deref(I, st, args[0]), deref(I, st, args[1])
    ne = callee["def"].endswith("::ne")
    from .interp import VApp
    if isinstance(a, VApp) or isinstance(b, VApp):
        # a leaf-decoded value against a constant (`talker_id != TalkerId::Unknown`): one case per path of the leaf
        app, other, = (a, b) if isinstance(a, VApp) else (b, a)
        if isinstance(other, VApp):
            raise Unanalysable("PartialEq on two leaf applications")
        discrs, atoms = I.app_discrs(st, app)
        if discrs and any(x is None for x in atoms) and isinstance(other, VAdt) and not other.fields:
            # decoded from bytes: compare the opaque variant number (no split on the bytes)
            adt = I.f.adts.get(other.adt)
            od = adt["variants"][other.variant]["discr"] if adt and adt["variants"] else other.variant
            if od not in discrs:
                c = False
            elif len(discrs) == 1:
                c = True
            else:
                c = ("in", I.appvar_atom(st, app, discrs), IntSet.of(od))
            return [(st, VBool(negate(c) if ne else c))]
        out = []
        for s2, val in I.app_cases(st, app):
            if isinstance(val, VAdt) and isinstance(other, VAdt) and val.adt == other.adt:
                if val.variant != other.variant:
                    c = False
                elif not val.fields:
                    c = True
                else:
                    c = True
                    for x, y in zip(val.fields, other.fields):
                        c = simplify(("and", c, eq_cond(I, s2, x, y)))
            else:
                c = eq_cond(I, s2, val, other)
            out.append((s2, VBool(negate(c) if ne else c)))
        return out
    c = eq_cond(I, st, a, b)
    return [(st, VBool(negate(c) if ne else c))]


def eq_cond(I, st, a, b):
    if isinstance(a, VInt) and isinstance(b, VInt):
        return I.cmp(st, "Eq", lin_of(st, a), lin_of(st, b)).cond
    if isinstance(a, VBool) and isinstance(b, VBool):
        return I.binop(st, "Eq", a, b).cond

    def optparts(v):
        if isinstance(v, VAdt) and v.adt == OPTION:
            return (True if v.variant == 1 else False), (v.fields[0] if v.variant == 1 else None)
        if isinstance(v, VSymEnum) and v.adt == OPTION:
            return ("in", v.disc, IntSet.of(1)), v.by_variant[1][0]
        return None
    pa, pb = optparts(a), optparts(b)
    if pa and pb:
        (sa, va), (sb, vb) = pa, pb
        both_some = ("and", sa, sb)
        both_none = ("and", negate(sa), negate(sb))
        inner = eq_cond(I, st, va, vb) if (va is not None and vb is not None) else False
        return simplify(("or", both_none, ("and", both_some, inner)))
    raise Unanalysable("PartialEq on %r, %r" % (a, b))


def simplify(c):
    if c is True or c is False:
        return c
    k = c[0]
    if k == "not":
        x = simplify(c[1])
        if x is True:
            return False
        if x is False:
            return True
        return ("not", x)
    if k in ("and", "or"):
        a, b = simplify(c[1]), simplify(c[2])
        if k == "and":
            if a is False or b is False:
                return False
            if a is True:
                return b
            if b is True:
                return a
        else:
            if a is True or b is True:
                return True
            if a is False:
                return b
            if b is False:
                return a
        return (k, a, b)
    return c


@ext("core::cmp::PartialOrd::le", "core::cmp::PartialOrd::lt", "core::cmp::PartialOrd::ge", "core::cmp::PartialOrd::gt")
def h_ord(I, st, callee, target, args, ctx):
    a, b = deref(I, st, args[0]), deref(I, st, args[1])
    op = {"le": "Le", "lt": "Lt", "ge": "Ge", "gt": "Gt"}[callee["def"].rsplit("::", 1)[1]]
    if isinstance(a, VInt) and isinstance(b, VInt):
        return [(st, I.cmp(st, op, lin_of(st, a), lin_of(st, b)))]
    raise Unanalysable("PartialOrd on %r %r" % (a, b))


@ext("core::clone::Clone::clone")
def h_clone(I, st, callee, target, args, ctx):
    return [(st, deref(I, st, args[0]))]


@ext("core::mem::swap")
def h_swap(I, st, callee, target, args, ctx):
    a, b = args
    va, vb = I.read_ref(st, a), I.read_ref(st, b)
    I.write_loc(st, a.cell, a.path, vb)
    I.write_loc(st, b.cell, b.path, va)
    st.event("write", a.cell, a.path)
    st.event("write", b.cell, b.path)
    return [(st, UNIT)]


@ext("core::mem::take")
def h_take(I, st, callee, target, args, ctx):
    a = args[0]
    va = I.read_ref(st, a)
    ty = None
    I.write_loc(st, a.cell, a.path, VSeq(("empty",), va.cap) if isinstance(va, VSeq) else VOpaque("default"))
    return [(st, va)]


@ext("core::mem::replace")
def h_replace(I, st, callee, target, args, ctx):
    a, nv = args
    va = I.read_ref(st, a)
    I.write_loc(st, a.cell, a.path, nv)
    return [(st, va)]


# ---- slices, iterators -------------------------------------------------------------------------

@ext("core:[T]::len", "alloc:Vec<T, A>::len", "heapless:Vec<T, N>::len")
def h_slice_len(I, st, callee, target, args, ctx):
    return [(st, I.len_of(st, args[0]))]


@ext("core:[T]::is_empty", "alloc:Vec<T, A>::is_empty", "heapless:Vec<T, N>::is_empty")
def h_slice_is_empty(I, st, callee, target, args, ctx):
    l = lin_of(st, I.len_of(st, args[0]))
    return [(st, I.cmp(st, "Eq", l, Lin.const(0)))]


@ext("core:[T]::iter", "core::iter::traits::collect::IntoIterator::into_iter")
def h_iter(I, st, callee, target, args, ctx):
    v = deref(I, st, args[0])
    if isinstance(v, VSlice):
        return [(st, VIter(v, Lin.const(0)))]
    if isinstance(v, VSeq):
        return [(st, VIter(VSlice(("seq", v.term), Lin.const(0), I.seq_len(st, v.term)), Lin.const(0)))]
    if isinstance(v, VIter):
        return [(st, v)]
    if isinstance(v, VParser) and v.kind.startswith("it_"):
        return [(st, v)]
    if isinstance(v, VAdt) and v.adt.endswith("ops::range::Range"):
        return [(st, v)]
    raise Unanalysable("iter over %r" % (v,))


@ext("core::ops::deref::Deref::deref", "core::ops::deref::DerefMut::deref_mut", "core::convert::AsRef::as_ref",
     "alloc:Vec<T, A>::as_slice", "core::borrow::Borrow::borrow")
def h_deref(I, st, callee, target, args, ctx):
    r = args[0]
    v = deref(I, st, r)
    if isinstance(v, VSeq):
        if callee["def"].endswith("deref_mut"):
            return [(st, r)]
        return [(st, VSlice(("seq", v.term), Lin.const(0), I.seq_len(st, v.term)))]
    if isinstance(v, (VStr, VSlice)):
        return [(st, v)]
    if isinstance(v, VList):
        return [(st, r if isinstance(r, VRef) else v)]
    if isinstance(v, VElems):
        return [(st, v)]
    if isinstance(v, VOpaque):
        return [(st, VOpaque(v.tag + ".deref"))]
    raise Unanalysable("deref of %r" % (v,))


# ---- formatting (opaque, total) ----------------------------------------------------------------

for _k in ["alloc::fmt::format", "core:Argument<'_>::new_display", "core:Argument<'_>::new_debug",
           "core:Argument<'_>::new_lower_hex", "core:Argument<'_>::new_upper_hex", "core:Arguments<'a>::new", "core::hint::must_use",
           "core:Arguments<'a>::new_const", "core:Arguments<'a>::from_str", "core:Arguments<'a>::from_str_nonconst",
           "core:Formatter<'a>::write_str", "core:Formatter<'a>::write_fmt", "nom:Error<I>::new",
           "nom::error::ParseError::from_error_kind", "nom::error::ParseError::append", "nom::traits::ErrorConvert::convert"]:
    def _h(I, st, callee, target, args, ctx, _k=_k):
        dest = ctx["term"]["dest"]
        ty = ctx["body"]["locals"][dest["l"]] if not dest["p"] else None
        return [(st, VOpaque("fmt", ty))]
    EXT[_k] = _h
    CONTRACT[_k] = "opaque-total"


# ---- strings -----------------------------------------------------------------------------------

@ext("core::str::converts::from_utf8")
def h_from_utf8(I, st, callee, target, args, ctx):
    v = deref(I, st, args[0])
    ascii_only = I.bytes_all_ascii(st, v)
    if isinstance(v, VSlice):
        for e in st.events:
            if e[0] in ("g", "gp") and e[1] == "digit1" and e[3] == v.buf and e[4] == v.start and e[5] == v.start + v.len:
                ascii_only = True
    term = ("utf8", valkey(v))
    if ascii_only:
        return [(st, mk_ok(VStr(term)))]
    s1, s2 = st, st.copy()
    key = ("utf8ok", valkey(v))
    s1.pc.opq[key] = True
    s2.pc.opq[key] = False
    return [(s1, mk_ok(VStr(term))), (s2, mk_err(VOpaque("Utf8Error")))]


@ext("core:str::trim_start", "core:str::trim_end", "core:str::trim")
def h_trim(I, st, callee, target, args, ctx):
    v = deref(I, st, args[0])
    name = target["def"].rsplit("::", 1)[1]
    return [(st, VStr((name, v.term)))]


@ext("core:str::trim_end_matches", "core:str::trim_start_matches", "core:str::trim_matches")
def h_trim_matches(I, st, callee, target, args, ctx):
    v = deref(I, st, args[0])
    pat = args[1]
    name = target["def"].rsplit("::", 1)[1]
    pk = lin_of(st, pat).c if isinstance(pat, VInt) and lin_of(st, pat).is_const() else valkey(pat)
    return [(st, VStr((name, v.term, pk)))]


@ext("alloc::string::ToString::to_string", "alloc::borrow::ToOwned::to_owned", "alloc:str::to_string", "alloc:str::to_owned")
def h_to_string(I, st, callee, target, args, ctx):
    v = deref(I, st, args[0])
    if isinstance(v, VStr):
        return [(st, VStr(v.term, True))]
    return [(st, VOpaque("to_string"))]


@ext("core::str::traits::FromStr::from_str")
def h_from_str(I, st, callee, target, args, ctx):
    v = deref(I, st, args[0])
    dest = ctx["term"]["dest"]
    # Result<u8, ParseIntError>
    r = callee.get("resolved") or {}
    selft = r.get("impl_self") or ""
    if selft in ("u8", "u16", "u32", "u64", "usize"):
        w = {"u8": 8, "u16": 16, "u32": 32, "u64": 64, "usize": 64}[selft]
        key = ("parse_int", v.term, w)
        atom = ("sym", "int(%r)" % (v.term,), 0, (1 << w) - 1)
        s1, s2 = st, st.copy()
        s1.pc.opq[("from_str_ok", v.term, w)] = True
        s2.pc.opq[("from_str_ok", v.term, w)] = False
        s1.event("from_str", v.term, w, True)
        s2.event("from_str", v.term, w, False)
        return [(s1, mk_ok(VInt(w, False, lin=Lin.atom(("parsed", v.term, w, 0, (1 << w) - 1))))), (s2, mk_err(VOpaque("ParseIntError")))]
    raise Unanalysable("from_str for " + selft)


# ---- Vec<u8> / heapless::Vec -------------------------------------------------------------------

@ext("alloc::vec::from_elem")
def h_from_elem(I, st, callee, target, args, ctx):
    e, n = args
    if isinstance(e, VInt) and lin_of(st, e).is_const() and lin_of(st, e).c == 0:
        return [(st, VSeq(("zeros", lin_of(st, n), ()), None))]
    raise Unanalysable("vec![x; n] with x != 0")


@ext("alloc:Vec<T, A>::extend_from_slice")
def h_extend(I, st, callee, target, args, ctx):
    r, sl = args
    v = I.read_ref(st, r)
    s = deref(I, st, sl)
    if isinstance(v, VSeq) and isinstance(s, VSlice):
        nv = VSeq(seq_concat(v.term, ("slice", s.buf, s.start, s.len)), v.cap)
        I.write_loc(st, r.cell, r.path, nv)
        st.event("write", r.cell, r.path)
        return [(st, UNIT)]
    raise Unanalysable("extend_from_slice %r %r" % (v, s))


def seq_concat(a, b):
    if a == ("empty",):
        return b
    if b == ("empty",):
        return a
    return ("concat", a, b)


@ext("heapless:Vec<T, N>::extend_from_slice")
def h_extend_heapless(I, st, callee, target, args, ctx):
    r, sl = args
    v = I.read_ref(st, r)
    s = deref(I, st, sl)
    if isinstance(v, VSeq) and isinstance(s, VSlice):
        total = I.seq_len(st, v.term) + s.len
        over = decide_le0(st, -total + v.cap + 1, "heapless extend")   # cap < total
        if over:
            st.event("capacity_err", "extend_from_slice", v.cap)
            return [(st, mk_err(UNIT))]
        nv = VSeq(seq_concat(v.term, ("slice", s.buf, s.start, s.len)), v.cap)
        I.write_loc(st, r.cell, r.path, nv)
        st.event("write", r.cell, r.path)
        return [(st, mk_ok(UNIT))]
    raise Unanalysable("heapless extend_from_slice %r %r" % (v, s))


@ext("alloc:Vec<T, A>::push")
def h_push(I, st, callee, target, args, ctx):
    r, x = args
    v = I.read_ref(st, r)
    if isinstance(v, VSeq) and v.term == ("empty",):
        v = VList((), v.cap)
    if isinstance(v, VList):
        I.write_loc(st, r.cell, r.path, VList(v.items + (x,), v.cap))
        return [(st, UNIT)]
    raise Unanalysable("push on %r" % (v,))


@ext("heapless:Vec<T, N>::push")
def h_push_heapless(I, st, callee, target, args, ctx):
    r, x = args
    v = I.read_ref(st, r)
    if isinstance(v, VSeq) and v.term == ("empty",):
        v = VList((), v.cap)
    if isinstance(v, VList):
        if len(v.items) >= v.cap:
            st.event("capacity_err", "push", v.cap)
            return [(st, mk_err(x))]
        I.write_loc(st, r.cell, r.path, VList(v.items + (x,), v.cap))
        return [(st, mk_ok(UNIT))]
    raise Unanalysable("heapless push on %r" % (v,))


@ext("heapless:Vec<T, N>::push_unchecked", contract="pre")
def h_push_unchecked(I, st, callee, target, args, ctx):
    r, x = args
    v = I.read_ref(st, r)
    if isinstance(v, VSeq) and v.term == ("empty",):
        v = VList((), v.cap)
    if isinstance(v, VList):
        okk = len(v.items) < v.cap
        panic_obligation(I, st, ctx, "push_unchecked capacity", okk, None if okk else "vector full")
        I.write_loc(st, r.cell, r.path, VList(v.items + (x,), v.cap))
        return [(st, UNIT)]
    raise Unanalysable("push_unchecked on %r" % (v,))


@ext("heapless:Vec<T, N>::new")
def h_heapless_new(I, st, callee, target, args, ctx):
    dest = ctx["term"]["dest"]
    ty = ctx["body"]["locals"][dest["l"]]
    return [(st, default_of(I, ty))]


@ext("heapless:Vec<T, N>::resize")
def h_heapless_resize(I, st, callee, target, args, ctx):
    r, n, x = args
    v = I.read_ref(st, r)
    if isinstance(v, VSeq) and v.term == ("empty",) and isinstance(x, VInt) and lin_of(st, x).is_const() and lin_of(st, x).c == 0:
        nl = lin_of(st, n)
        over = decide_le0(st, -nl + v.cap + 1, "heapless resize")   # cap < n
        if over:
            st.event("capacity_err", "resize", v.cap)
            return [(st, mk_err(UNIT))]
        I.write_loc(st, r.cell, r.path, VSeq(("zeros", nl, ()), v.cap))
        return [(st, mk_ok(UNIT))]
    raise Unanalysable("heapless resize %r" % (v,))


@ext("core::convert::TryInto::try_into", "core::convert::TryFrom::try_from")
def h_try_into(I, st, callee, target, args, ctx):
    v = args[0]
    dest = ctx["term"]["dest"]
    ty = ctx["body"]["locals"][dest["l"]] if not dest["p"] else None
    t = I.f.types[ty]
    # Result<heapless::Vec<u8,N>, ()>
    if t["k"] == "adt" and t["def"] == RESULT and isinstance(v, VInt) and I.rty(t["args"][0]["ty"])["k"] == "int":
        # integer TryFrom: Ok(value) exactly when it fits the target type
        okt = I.rty(t["args"][0]["ty"])
        tr = ty_range(okt["w"], okt["s"])
        lv = lin_of(st, v)
        lo_ok = decide_le0(st, -lv + tr.min(), "int try_from")
        hi_ok = lo_ok and decide_le0(st, lv - tr.max(), "int try_from")
        if lo_ok and hi_ok:
            return [(st, mk_ok(VInt(okt["w"], okt["s"], lin=lv)))]
        return [(st, mk_err(VOpaque("TryFromIntError")))]
    if t["k"] == "adt" and t["def"] == RESULT:
        okt = I.rty(t["args"][0]["ty"])
        if okt["k"] == "array" and isinstance(v, VSlice) and isinstance(okt.get("len"), int):
            # <[u8; N]>::try_from(slice): Ok(copy) exactly when the length is N
            n = okt["len"]
            if v.len.is_const():
                fits = v.len.c == n
            else:
                ge = decide_le0(st, -v.len + n, "array try_from")        # len >= n
                fits = ge and decide_le0(st, v.len - n, "array try_from")   # len <= n
            if not fits:
                return [(st, mk_err(VOpaque("TryFromSliceError")))]
            items = [VInt(8, False, lin=Lin.atom(("byte", v.buf, (v.start + i).key()))) for i in range(n)]
            return [(st, mk_ok(VList(items)))]
        cap = vec_cap(I, okt)
        if isinstance(v, VSlice) and okt["k"] == "adt" and okt["def"] == "alloc::vec::Vec":
            # TryFrom via the blanket impl over From: Vec::from(slice), infallible
            return [(st, mk_ok(VSeq(("slice", v.buf, v.start, v.len), None)))]
        if isinstance(v, VSlice) and cap is not None:
            over = decide_le0(st, -v.len + cap + 1, "heapless try_from")   # cap < len
            if over:
                st.event("capacity_err", "try_from", cap)
                return [(st, mk_err(UNIT))]
            return [(st, mk_ok(VSeq(("slice", v.buf, v.start, v.len), cap)))]
    raise Unanalysable("try_into %r -> %s" % (v, t["text"]))


@ext("core::ops::index::IndexMut::index_mut", "core::ops::index::Index::index", contract="pre")
def h_index(I, st, callee, target, args, ctx):
    r, idx = args
    v = deref(I, st, r)
    if isinstance(idx, VAdt) and "::ops::range::" in idx.adt:
        kind = idx.adt.rsplit("::", 1)[1]
        if isinstance(v, VSeq):
            v = VSlice(("seq", v.term), Lin.const(0), I.seq_len(st, v.term))
        if isinstance(v, VSlice) and kind in ("Range", "RangeFrom", "RangeTo", "RangeFull"):
            lo = Lin.const(0)
            hi = v.len
            if kind == "Range":
                lo, hi = lin_of(st, idx.fields[0]), lin_of(st, idx.fields[1])
            elif kind == "RangeFrom":
                lo = lin_of(st, idx.fields[0])
            elif kind == "RangeTo":
                hi = lin_of(st, idx.fields[0])
            d1 = decide_le0(st, lo - hi, "slice range order") if not (lo - hi).is_const() else (lo - hi).c <= 0
            d2 = decide_le0(st, hi - v.len, "slice range end") if not (hi - v.len).is_const() else (hi - v.len).c <= 0
            okk = bool(d1) and bool(d2)
            panic_obligation(I, st, ctx, "slice index out of range", okk, None if okk else "range %r..%r of a slice of length %r" % (lo, hi, v.len))
            if not okk:
                return []
            return [(st, VSlice(v.buf, v.start + lo, hi - lo))]
        if isinstance(v, VStr) and kind in ("Range", "RangeFrom", "RangeTo", "RangeFull"):
            # &s[a..b] panics unless a <= b <= len and both are character boundaries; the length of a
            # decoded string is opaque here, so the obligation is discharged only for constants inside
            # a literal - otherwise it stays open (and is a finding of C01)
            ln = lin_of(st, I.len_of(st, v))
            lo, hi = Lin.const(0), ln
            if kind == "Range":
                lo, hi = lin_of(st, idx.fields[0]), lin_of(st, idx.fields[1])
            elif kind == "RangeFrom":
                lo = lin_of(st, idx.fields[0])
            elif kind == "RangeTo":
                hi = lin_of(st, idx.fields[0])
            d1 = st.decide(("le0", lo - hi))
            d2 = st.decide(("le0", hi - ln))
            def known_ascii(t):
                # a literal made of ASCII bytes, or text decoded through the crate's own tables; bytes
                # taken straight from an input buffer (`from_utf8(slice of the line)`) may hold
                # multi-byte characters
                if isinstance(t, tuple):
                    if t and t[0] == "cstr":
                        return all(b < 128 for b in t[1])
                    if t and t[0] == "slice":
                        return False
                    return all(known_ascii(x) for x in t)
                return True
            at_ends = (lo.is_const() and lo.c == 0 or (lo - ln).is_const() and (lo - ln).c == 0) and ((hi - ln).is_const() and (hi - ln).c == 0 or hi.is_const() and hi.c == 0)
            ascii_ = known_ascii(v.term) or at_ends
            okk = d1 is True and d2 is True and ascii_
            panic_obligation(I, st, ctx, "str slice index", okk, None if okk else "range %r..%r of a string of length %r (out of range or not a character boundary)" % (lo, hi, ln))
            return [(st, VStr(("substr", v.term, lo.key(), hi.key())))]
        raise Unanalysable("range index %s on %r" % (kind, v))
    if isinstance(v, VSeq) and isinstance(idx, VInt):
        ln = I.seq_len(st, v.term)
        il = lin_of(st, idx)
        d = st.decide(("le0", il - ln + 1))
        panic_obligation(I, st, ctx, "index out of bounds", d is True, None if d is True else "cannot prove %r < %r" % (il, ln))
        if not isinstance(r, VRef):
            raise Unanalysable("index on non-ref")
        return [(st, VRef(r.cell, r.path + (("idx", idx),), True))]
    raise Unanalysable("index %r[%r]" % (v, idx))


# ---- Range iteration (const-bounded loops) -----------------------------------------------------

@ext("core::iter::traits::iterator::Iterator::next")
def h_next(I, st, callee, target, args, ctx):
    r = args[0]
    it = I.read_ref(st, r)
    if isinstance(it, VAdt) and it.adt.endswith("ops::range::Range"):
        lo, hi = it.fields
        ll, lh = lin_of(st, lo), lin_of(st, hi)
        d = decide_le0(st, ll - lh + 1, "range next")     # lo < hi
        if d:
            I.write_loc(st, r.cell, r.path, VAdt(it.adt, it.variant, (VInt(lo.w, lo.s, lin=ll + 1), hi)))
            return [(st, mk_some(lo))]
        return [(st, NONE)]
    if isinstance(it, VIter):
        return I.iter_next(st, r, it, ctx)
    if isinstance(it, VParser) and it.kind.startswith("it_"):
        return opaque_loop(I, st, r, it, ctx)
    raise Unanalysable("Iterator::next on %r" % (it,))


def opaque_loop(I, st, r, it, ctx):
    """`for item in <io iterator>`: the body is interpreted once per kind of generic item; it may
    change nothing that lives across iterations except through opaque library calls (cells it does
    change are treated as temporaries and re-verified); leaving the function from inside the body is
    reported to the caller as a loop_return."""
    from .interp import UNINIT
    body, frame, hdr, term = ctx["body"], ctx["frame"], ctx["bb"], ctx["term"]
    tgt, dest = term["target"], term["dest"]
    if any(e[0] == "drain" for e in st.events):
        raise Unanalysable("second loop over the line iterator")
    pre_cells = set(st.store.keys())
    temps = set()
    for _round in range(6):
        backs, rets = [], []
        base = st.copy()
        base.event("drain", "for")
        for c in temps:
            base.store[c] = UNINIT
        for s2, item in iter_items(I, base.copy(), it, ctx):
            I.write_place(s2, frame, dest, mk_some(item))
            b, rt = I.run_region(s2, body, frame, tgt, hdr)
            backs += b
            rets += rt
        new_temps = set()
        for b in backs:
            for c in pre_cells:
                if c in temps or (c == r.cell):
                    continue
                if b.store.get(c) is not st.store[c] and valkey(b.store.get(c)) != valkey(st.store[c]):
                    new_temps.add(c)
        if not new_temps:
            break
        temps |= new_temps
    else:
        raise Unanalysable("loop temporaries do not stabilise")
    for b in backs:
        b.event("body_done")
        I.item_paths.append(b)
    for (s2, rv) in rets:
        s2.event("loop_return", "io")
        I.item_paths.append(s2)
        ctx["results"].append((s2, rv))
    stE = st.copy()
    stE.event("drain", "for")
    for c in temps:
        stE.store[c] = UNINIT
    return [(stE, NONE)]


@ext("core::iter::traits::iterator::Iterator::fold")
def h_fold(I, st, callee, target, args, ctx):
    it, init, f = args
    it = deref(I, st, it)
    by_value = False
    if isinstance(it, VParser) and it.kind == "it_copied" and isinstance(it.args[0], VIter):
        it, by_value = it.args[0], True
    if not isinstance(it, VIter):
        raise Unanalysable("fold over %r" % (it,))
    # interpret the closure once on two generic atoms and record Fold(slice, init, op)
    w, s = init.w, init.s
    acc = VInt(w, s, lin=Lin.atom(("sym", "$acc", ty_range(w, s).min(), ty_range(w, s).max())))
    el = VInt(8, False, lin=Lin.atom(("sym", "$elem", 0, 255)))
    c = I.new_cell(st, el)
    fv = deref(I, st, f)
    # which parameter form does the closure take: |acc, &item| -> arg is a reference
    outs = I.apply_callable(st, f, [acc, el if by_value else VRef(c, ())], ctx)
    if len(outs) != 1:
        raise Unanalysable("fold closure forks")
    s2, r = outs[0]
    op = valkey(r)
    a = ("fold", valkey(it.slice), lin_of(st, init).key(), op, ty_range(w, s).min(), ty_range(w, s).max())
    return [(s2, VInt(w, s, lin=Lin.atom(("opqint",) + a[0:4] + a[4:])))]


# ================================================================================================
# byte-level nom parsers (sentence layer).  Every data-dependent outcome is an opaque boolean
# fact in the path condition plus a grammar event ('g', kind, params, start, end) recording what
# was matched where; positions are Lin over fresh position atoms.

def _lit(v):
    if isinstance(v, VStr) and v.term[0] == "cstr":
        return v.term[1]
    if isinstance(v, VSlice) and isinstance(v.buf, tuple) and v.buf[0] == "cbytes":
        return v.buf[1]
    raise Unanalysable("literal expected, got %r" % (v,))


def _byte_input(inp):
    if not isinstance(inp, VSlice):
        raise Unanalysable("byte input expected, got %r" % (inp,))
    return inp


def _fork(st, key):
    """-> (st_true or None, st_false or None) honouring an existing decision"""
    cur = st.pc.opq.get(key)
    if cur is True:
        return st, None
    if cur is False:
        return None, st
    a, b = st, st.copy()
    a.pc.opq[key] = True
    b.pc.opq[key] = False
    return a, b


def _constrain_byte(st, buf, poslin, allowed):
    """intersect the value set of a line byte; False when the path becomes infeasible"""
    a = ("byte", buf, poslin.key())
    cur = st.aset(a)
    new = cur.intersect(allowed)
    if new.is_empty():
        return False
    st.pc.sets[a] = new
    return True


def _abandon(st, n0):
    """events of a sub-parse that was backtracked over (opt / alt) are not part of the match"""
    ev = list(st.events)
    for i in range(n0, len(ev)):
        if ev[i][0] in ("g", "gp"):
            ev[i] = ("gx",) + ev[i][1:]
    st.events = tuple(ev)


def _fresh_pos(st, name, lo_lin):
    n = len([e for e in st.events if e[0] in ("g", "gp")])
    return ("sym", "%s#%d" % (name, n), 0, MAXLEN)


def _add_fact_le0(st, lin):
    """assume lin <= 0 on st (in place semantics via returned state list)"""
    outs = st.assume(("le0", lin), True)
    return outs[0] if outs else None


@parser("tag")
def p_tag(I, st, pv, inp, ctx):
    s = _lit(pv.args[0])
    sl = _byte_input(inp)
    key = ("tag", sl.buf if not isinstance(sl.buf, tuple) else tuple(sl.buf), sl.start.key(), s)
    ok, no = _fork(st, key)
    out = []
    if ok is not None:
        ok = _add_fact_le0(ok, -sl.len + len(s))      # len >= |s|
        if ok is not None and all(_constrain_byte(ok, sl.buf, sl.start + i, IntSet.of(b)) for i, b in enumerate(s)):
            ok.event("g", "tag", s, sl.buf, sl.start, sl.start + len(s))
            out.append((ok, ok_pair(VSlice(sl.buf, sl.start + len(s), sl.len - len(s)), VSlice(sl.buf, sl.start, Lin.const(len(s))))))
    if no is not None:
        no.event("gfail", "tag", s, sl.buf, sl.start)
        out.append((no, nom_err(I, "Error", VOpaque("Tag"))))
    return out


@parser("take_bytes")
def p_take_bytes(I, st, pv, inp, ctx):
    n = const_of(st, pv.args[0], "take count")
    if n is None:
        raise Unanalysable("bytes::take count not constant")
    sl = _byte_input(inp)
    d = st.decide(("le0", -sl.len + n))
    outs = []
    cases = [(True, st)] if d is True else ([(False, st)] if d is False else [(True, None), (False, None)])
    for want, s0 in cases:
        if s0 is None:
            xs = st.copy().assume(("le0", -sl.len + n), want)
            if not xs:
                continue
            s0 = xs[0]
        if want:
            s0.event("g", "take", n, sl.buf, sl.start, sl.start + n)
            outs.append((s0, ok_pair(VSlice(sl.buf, sl.start + n, sl.len - n), VSlice(sl.buf, sl.start, Lin.const(n)))))
        else:
            s0.event("gfail", "take", n, sl.buf, sl.start)
            outs.append((s0, nom_err(I, "Error", VOpaque("Eof"))))
    return outs


@parser("take_until")
def p_take_until(I, st, pv, inp, ctx):
    s = _lit(pv.args[0])
    sl = _byte_input(inp)
    key = ("take_until", sl.buf if not isinstance(sl.buf, tuple) else tuple(sl.buf), sl.start.key(), s)
    ok, no = _fork(st, key)
    out = []
    if ok is not None:
        p = _fresh_pos(ok, "until", sl.start)
        pl = Lin.atom(p)
        total = sl.start + sl.len
        ok = _add_fact_le0(ok, sl.start - pl)                 # p >= start
        ok = _add_fact_le0(ok, pl + len(s) - total) if ok is not None else None      # p + |s| <= total
        if ok is not None and all(_constrain_byte(ok, sl.buf, pl + i, IntSet.of(b)) for i, b in enumerate(s)):
            ok.event("g", "take_until", s, sl.buf, sl.start, pl)
            out.append((ok, ok_pair(VSlice(sl.buf, pl, total - pl), VSlice(sl.buf, sl.start, pl - sl.start))))
    if no is not None:
        no.event("gfail", "take_until", s, sl.buf, sl.start)
        out.append((no, nom_err(I, "Error", VOpaque("TakeUntil"))))
    return out


@ext("nom::character::complete::digit1")
def h_digit1(I, st, callee, target, args, ctx):
    sl = _byte_input(args[0])
    key = ("digit1", sl.buf if not isinstance(sl.buf, tuple) else tuple(sl.buf), sl.start.key())
    ok, no = _fork(st, key)
    out = []
    if ok is not None:
        q = _fresh_pos(ok, "digits", sl.start)
        ql = Lin.atom(q)
        total = sl.start + sl.len
        ok = _add_fact_le0(ok, sl.start + 1 - ql)             # at least one digit
        ok = _add_fact_le0(ok, ql - total) if ok is not None else None
        if ok is not None and _constrain_byte(ok, sl.buf, sl.start, IntSet.range(48, 57)) and _constrain_byte(ok, sl.buf, ql - 1, IntSet.range(48, 57)):
            ok.event("g", "digit1", None, sl.buf, sl.start, ql)
            out.append((ok, ok_pair(VSlice(sl.buf, ql, total - ql), VSlice(sl.buf, sl.start, ql - sl.start))))
    if no is not None:
        no.event("gfail", "digit1", None, sl.buf, sl.start)
        out.append((no, nom_err(I, "Error", VOpaque("Digit"))))
    return out


@ext("nom::number::complete::hex_u32")
def h_hex_u32(I, st, callee, target, args, ctx):
    sl = _byte_input(args[0])
    key = ("hex_u32", sl.buf if not isinstance(sl.buf, tuple) else tuple(sl.buf), sl.start.key())
    ok, no = _fork(st, key)
    out = []
    if ok is not None:
        q = _fresh_pos(ok, "hex", sl.start)
        ql = Lin.atom(q)
        total = sl.start + sl.len
        ok = _add_fact_le0(ok, sl.start + 1 - ql)             # at least one hex digit
        ok = _add_fact_le0(ok, ql - sl.start - 8) if ok is not None else None     # at most eight are read
        ok = _add_fact_le0(ok, ql - total) if ok is not None else None
        hexset = IntSet([(48, 57), (65, 70), (97, 102)])
        if ok is not None and _constrain_byte(ok, sl.buf, sl.start, hexset):
            ok.event("g", "hex_u32", 8, sl.buf, sl.start, ql)
            val = VInt(32, False, lin=Lin.atom(("hexval", sl.buf, sl.start.key(), 0, (1 << 32) - 1)))
            out.append((ok, ok_pair(VSlice(sl.buf, ql, total - ql), val)))
    if no is not None:
        no.event("gfail", "hex_u32", None, sl.buf, sl.start)
        out.append((no, nom_err(I, "Error", VOpaque("IsA"))))
    return out


@ext("nom::character::complete::anychar")
def h_anychar(I, st, callee, target, args, ctx):
    sl = _byte_input(args[0])
    d = decide_le0(st, -sl.len + 1, "anychar")      # len >= 1
    if d:
        st.event("g", "anychar", None, sl.buf, sl.start, sl.start + 1)
        ch = VInt(32, False, lin=Lin.atom(("byte", sl.buf, sl.start.key())))
        return [(st, ok_pair(VSlice(sl.buf, sl.start + 1, sl.len - 1), ch))]
    st.event("gfail", "anychar", None, sl.buf, sl.start)
    return [(st, nom_err(I, "Error", VOpaque("Eof")))]


_orig_peek = PARSERS["peek"]


@parser("peek")
def p_peek2(I, st, pv, inp, ctx):
    n0 = len(st.events)
    out = []
    for s2, r in _orig_peek(I, st, pv, inp, ctx):
        ev = list(s2.events)
        for i in range(n0, len(ev)):
            if ev[i][0] == "g":
                ev[i] = ("gp",) + ev[i][1:]
        s2.events = tuple(ev)
        out.append((s2, r))
    return out


def _checked(op):
    def h(I, st, callee, target, args, ctx):
        a, b = args
        la, lb = lin_of(st, a), lin_of(st, b)
        r = la - lb if op == "sub" else la + lb
        tr = ty_range(a.w, a.s)
        lo_ok = decide_le0(st, -r + tr.min(), "checked_" + op)       # r >= min
        if not lo_ok:
            return [(st, NONE)]
        hi_ok = decide_le0(st, r - tr.max(), "checked_" + op)        # r <= max
        if not hi_ok:
            return [(st, NONE)]
        return [(st, mk_some(VInt(a.w, a.s, lin=r)))]
    return h


for _t in ("u8", "u16", "u32", "u64", "usize", "i8", "i16", "i32", "i64", "isize"):
    EXT["core:%s::checked_sub" % _t] = _checked("sub")
    EXT["core:%s::checked_add" % _t] = _checked("add")
    CONTRACT["core:%s::checked_sub" % _t] = "total"
    CONTRACT["core:%s::checked_add" % _t] = "total"


def _wrapping(op):
    def h(I, st, callee, target, args, ctx):
        a, b = args
        return [(st, I.binop(st, {"sub": "Sub", "add": "Add"}[op], a, b))]
    return h


for _t in ("u8", "u16", "u32", "u64", "usize"):
    EXT["core:%s::wrapping_sub" % _t] = _wrapping("sub")
    EXT["core:%s::wrapping_add" % _t] = _wrapping("add")


@ext("core::option::Option::Some::{constructor#0}")
def h_some_ctor(I, st, callee, target, args, ctx):
    return [(st, mk_some(args[0]))]


@ext("core::result::Result::Ok::{constructor#0}")
def h_ok_ctor(I, st, callee, target, args, ctx):
    return [(st, mk_ok(args[0]))]


@ext("core::result::Result::Err::{constructor#0}")
def h_err_ctor(I, st, callee, target, args, ctx):
    return [(st, mk_err(args[0]))]


def _saturating(op):
    def h(I, st, callee, target, args, ctx):
        a, b = args
        la, lb = lin_of(st, a), lin_of(st, b)
        tr = ty_range(a.w, a.s)
        if op == "sub":
            r = la - lb
            under = decide_le0(st, r - tr.min() + 1, "saturating_sub") if False else None
            ok = decide_le0(st, -r + tr.min(), "saturating_sub")      # r >= min
            return [(st, VInt(a.w, a.s, lin=r if ok else Lin.const(tr.min())))]
        r = la + lb
        ok = decide_le0(st, r - tr.max(), "saturating_add")
        return [(st, VInt(a.w, a.s, lin=r if ok else Lin.const(tr.max())))]
    return h


for _t in ("u8", "u16", "u32", "u64", "usize", "i8", "i16", "i32", "i64", "isize"):
    EXT["core:%s::saturating_sub" % _t] = _saturating("sub")
    EXT["core:%s::saturating_add" % _t] = _saturating("add")
    CONTRACT["core:%s::saturating_sub" % _t] = "total"
    CONTRACT["core:%s::saturating_add" % _t] = "total"


# ================================================================================================
# std::io / iterator adaptors used by the command-line tool (C20)

@ext("std::io::stdio::stdin", "std:Stdin::lock", contract="opaque-total")
def h_stdin(I, st, callee, target, args, ctx):
    return [(st, VOpaque("env:stdin"))]


@ext("std::io::BufRead::split")
def h_split(I, st, callee, target, args, ctx):
    d = args[1]
    dv = lin_of(st, d).c if isinstance(d, VInt) and lin_of(st, d).is_const() else None
    st.event("line_source", "split", dv, valkey(args[0]))
    return [(st, VParser("it_split", (args[0], d), {"delim": dv}))]


@ext("std::io::BufRead::lines")
def h_lines(I, st, callee, target, args, ctx):
    st.event("line_source", "lines", None, valkey(args[0]))
    return [(st, VParser("it_lines", (args[0],), {}))]


@ext("core::iter::traits::iterator::Iterator::map")
def h_iter_map(I, st, callee, target, args, ctx):
    if isinstance(args[0], VParser) and args[0].kind.startswith("it_"):
        return [(st, VParser("it_map", (args[0], args[1]), {}))]
    raise Unanalysable("Iterator::map over %r" % (args[0],))


for _k, _kind in (("core::iter::traits::iterator::Iterator::take", "it_take"), ("core::iter::traits::iterator::Iterator::take_while", "it_take_while"),
                  ("core::iter::traits::iterator::Iterator::skip", "it_skip"), ("core::iter::traits::iterator::Iterator::filter", "it_filter"),
                  ("core::iter::traits::iterator::Iterator::step_by", "it_step_by"), ("core::iter::traits::iterator::Iterator::map_while", "it_map_while")):
    def _h(I, st, callee, target, args, ctx, _kind=_kind):
        if _kind == "it_step_by" and arith_of(st, args[0]) is not None and isinstance(args[1], VInt):
            start, step0, w, sg = arith_of(st, args[0])
            n = st.norm(lin_of(st, args[1]))
            if n.is_const() and n.c >= 1:
                return [(st, VParser("it_arith", (VInt(w, sg, lin=start), step0 * n.c), {}))]
        if isinstance(args[0], VParser) and args[0].kind.startswith("it_"):
            st.event("iterator_adaptor", _kind)
            return [(st, VParser(_kind, tuple(args), {}))]
        raise Unanalysable("%s over %r" % (_kind, args[0]))
    EXT[_k] = _h
    CONTRACT[_k] = "total"


def arith_of(st, v):
    """(start Lin, step, width, signed) of an unbounded arithmetic progression: `a..` possibly
    stepped"""
    if isinstance(v, VAdt) and v.adt.endswith("ops::range::RangeFrom") and isinstance(v.fields[0], VInt):
        lo = v.fields[0]
        return (lin_of(st, lo), 1, lo.w, lo.s)
    if isinstance(v, VParser) and v.kind == "it_arith":
        lo = v.args[0]
        return (lin_of(st, lo), v.args[1], lo.w, lo.s)
    return None


@ext("core::iter::traits::iterator::Iterator::zip")
def h_zip(I, st, callee, target, args, ctx):
    """slice iterator zipped with an unbounded arithmetic progression: the zip is as long as the
    slice and pairs element k with start + step*k (which must fit the integer type for every
    possible k, else the progression itself would overflow)"""
    a, b = args
    for it, other, first in ((a, b, True), (b, a, False)):
        ar = arith_of(st, other)
        if type(it) is VIter and ar is not None:
            start, step, w, sg = ar
            s0 = st.norm(start)
            if not s0.is_const() or s0.c < 0 or s0.c + step * (MAXLEN + 1) >= (1 << (w - (1 if sg else 0))):
                raise Unanalysable("zip with a progression that may overflow")
            return [(st, VIterZipLin(it.slice, it.pos, s0, step, w, sg, first))]
    raise Unanalysable("zip of %r and %r" % (a, b))


def iter_items(I, st, it, ctx):
    """abstract items of an io iterator: [(st, item value)] for one generic element"""
    if it.kind in ("it_split", "it_lines"):
        a, b = st.copy(), st.copy()
        n = len([e for e in st.events if e[0] == "item"])
        a.event("item", "ok", n)
        b.event("item", "io_error", n)
        line = VSeq(("sym", "line#%d" % n), None) if it.kind == "it_split" else VStr(("sym", "line#%d" % n), True)
        return [(a, mk_ok(line)), (b, mk_err(VOpaque("env:io_error")))]
    if it.kind == "it_map":
        out = []
        for s2, item in iter_items(I, st, it.args[0], ctx):
            out += I.apply_callable(s2, it.args[1], [item], ctx)
        return out
    raise Unanalysable("items of iterator adaptor %s (it may drop or stop before some lines)" % it.kind)


@ext("core::iter::traits::iterator::Iterator::for_each")
def h_for_each(I, st, callee, target, args, ctx):
    it, g = args
    if not (isinstance(it, VParser) and it.kind.startswith("it_")):
        raise Unanalysable("for_each over %r" % (it,))
    # the body applied to one generic item; its effects on the caller's state are those of one
    # iteration.  for_each visits every item in order and returns when the source is exhausted.
    outs = []
    st.event("drain", "for_each")
    nbody = 0
    for s2, item in iter_items(I, st, it, ctx):
        for s3, r in I.apply_callable(s2, g, [item], ctx):
            nbody += 1
            s3.event("body_done")
            outs.append(s3)
            I.item_paths.append(s3)
    # continue after the loop from each body outcome (all leave the caller's locals alone except
    # through the captured &mut, which is opaque library state)
    return [(s, UNIT) for s in outs] + [(st, UNIT)]


@ext("core:Result<T, E>::unwrap_or_else")
def h_unwrap_or_else(I, st, callee, target, args, ctx):
    v, f = args
    if isinstance(v, VAdt) and v.adt == RESULT:
        if v.variant == 0:
            return [(st, v.fields[0])]
        return I.apply_callable(st, f, [v.fields[0]], ctx)
    raise Unanalysable("unwrap_or_else on %r" % (v,))


@ext("core:Result<T, E>::unwrap_or_default", "core:Result<T, E>::unwrap_or")
def h_unwrap_or(I, st, callee, target, args, ctx):
    v = args[0]
    if isinstance(v, VAdt) and v.adt == RESULT:
        if v.variant == 0:
            return [(st, v.fields[0])]
        return [(st, args[1] if len(args) > 1 else VOpaque("default"))]
    raise Unanalysable("unwrap_or on %r" % (v,))


@ext("alloc:String::from_utf8_lossy", contract="total")
def h_lossy(I, st, callee, target, args, ctx):
    return [(st, VOpaque("lossy_string"))]


@ext("std::io::stdio::_print", "std::io::stdio::_eprint", contract="env")
def h_print(I, st, callee, target, args, ctx):
    st.event("output", "stdout" if target["def"].endswith("_print") else "stderr", tuple(ctx["term"].get("macros", [])[-1:]))
    return [(st, UNIT)]


# ---- further nom combinators (so that ordinary refactorings stay analysable) -------------------

@parser("tuple")
def p_tuple(I, st, pv, inp, ctx):
    ps = pv.args[0]
    if not isinstance(ps, VTuple):
        raise Unanalysable("tuple() of %r" % (ps,))
    outs = [(st, inp, [])]
    final = []
    for p in ps.items:
        nxt = []
        for (s, cur, acc) in outs:
            for s2, r in run(I, s, p, cur, ctx):
                if is_ok(r):
                    rest, v = r.fields[0].items
                    nxt.append((s2, rest, acc + [v]))
                else:
                    final.append((s2, r))
        outs = nxt
    for (s, cur, acc) in outs:
        final.append((s, ok_pair(cur, VTuple(acc))))
    return final


@parser("all_consuming")
def p_all_consuming(I, st, pv, inp, ctx):
    out = []
    for s2, r in run(I, st, pv.args[0], inp, ctx):
        if is_ok(r):
            rest, v = r.fields[0].items
            ln = input_len_key(I, s2, rest)
            d = s2.decide(("le0", ln))
            if d is None:
                split_on_lin(s2, ln, "all_consuming")
            if d:
                out.append((s2, r))
            else:
                out.append((s2, nom_err(I, "Error", VOpaque("Eof"))))
        else:
            out.append((s2, r))
    return out


@parser("cut")
def p_cut(I, st, pv, inp, ctx):
    out = []
    for s2, r in run(I, st, pv.args[0], inp, ctx):
        if is_ok(r) or err_kind(I, r) != "Error":
            out.append((s2, r))
        else:
            out.append((s2, nom_err(I, "Failure", r.fields[0].fields[0])))
    return out


@parser("recognize")
def p_recognize(I, st, pv, inp, ctx):
    out = []
    for s2, r in run(I, st, pv.args[0], inp, ctx):
        if is_ok(r) and isinstance(inp, VSlice):
            rest, _ = r.fields[0].items
            out.append((s2, ok_pair(rest, VSlice(inp.buf, inp.start, rest.start - inp.start))))
        else:
            out.append((s2, r))
    return out


@parser("char")
def p_char(I, st, pv, inp, ctx):
    c = pv.args[0]
    cv = const_of(st, c, "char")
    if cv is None or cv > 127:
        raise Unanalysable("char() of a non-ASCII / non-constant character")
    outs = PARSERS["tag"](I, st, VParser("tag", (VStr(("cstr", bytes([cv]))),), pv.info), inp, ctx)
    res = []
    for s2, r in outs:
        if is_ok(r):
            rest, _ = r.fields[0].items
            res.append((s2, ok_pair(rest, mk_const(cv, 32, False))))
        else:
            res.append((s2, r))
    return res


for _k, _kind in [("nom::combinator::value", "value"), ("nom::combinator::map_opt", "map_opt"), ("nom::sequence::separated_pair", "separated_pair")]:
    EXT[_k] = _mk(_kind)
    CONTRACT[_k] = "total"


@parser("value")
def p_value(I, st, pv, inp, ctx):
    out = []
    for s2, r in run(I, st, pv.args[1], inp, ctx):
        if is_ok(r):
            rest, _ = r.fields[0].items
            out.append((s2, ok_pair(rest, pv.args[0])))
        else:
            out.append((s2, r))
    return out


@parser("map_opt")
def p_map_opt(I, st, pv, inp, ctx):
    out = []
    for s2, r in run(I, st, pv.args[0], inp, ctx):
        if is_ok(r):
            rest, v = r.fields[0].items
            for s3, r2 in I.apply_callable(s2, pv.args[1], [v], ctx):
                if isinstance(r2, VAdt) and r2.adt == OPTION:
                    out.append((s3, ok_pair(rest, r2.fields[0]) if r2.variant == 1 else nom_err(I, "Error", VOpaque("MapOpt"))))
                else:
                    raise Unanalysable("map_opt closure returned %r" % (r2,))
        else:
            out.append((s2, r))
    return out


@parser("separated_pair")
def p_separated_pair(I, st, pv, inp, ctx):
    a, sep, b = pv.args
    out = []
    for s2, r in p_tuple(I, st, VParser("tuple", (VTuple((a, sep, b)),), pv.info), inp, ctx):
        if is_ok(r):
            rest, v = r.fields[0].items
            out.append((s2, ok_pair(rest, VTuple((v.items[0], v.items[2])))))
        else:
            out.append((s2, r))
    return out


# ---- enumerate over a slice iterator ---------------------------------------------------------------

@ext("core::iter::traits::iterator::Iterator::enumerate")
def h_enumerate(I, st, callee, target, args, ctx):
    it = args[0]
    if isinstance(it, VIter):
        return [(st, VIterEnum(it.slice, it.pos))]
    raise Unanalysable("enumerate over %r" % (it,))


# ---- more core/alloc items that ordinary refactorings use --------------------------------------

@ext("alloc:Vec<T, A>::clear", "heapless:Vec<T, N>::clear", "alloc:Vec<T, A>::truncate")
def h_vec_clear(I, st, callee, target, args, ctx):
    r = args[0]
    v = I.read_ref(st, r)
    if target["def"].endswith("truncate"):
        n = const_of(st, args[1], "truncate")
        if n != 0:
            raise Unanalysable("Vec::truncate(n != 0)")
    if isinstance(v, VSeq):
        I.write_loc(st, r.cell, r.path, VSeq(("empty",), v.cap))
        return [(st, UNIT)]
    if isinstance(v, VList):
        I.write_loc(st, r.cell, r.path, VList((), v.cap))
        return [(st, UNIT)]
    raise Unanalysable("clear on %r" % (v,))


@ext("alloc:Vec<T>::new", "alloc:Vec<T>::with_capacity", "alloc:Vec<T, A>::new", "alloc:Vec<T, A>::with_capacity")
def h_vec_new(I, st, callee, target, args, ctx):
    dest = ctx["term"]["dest"]
    ty = ctx["body"]["locals"][dest["l"]]
    return [(st, default_of(I, ty))]


@ext("alloc:[T]::to_vec", "alloc::slice::{impl#0}::to_vec")
def h_to_vec(I, st, callee, target, args, ctx):
    v = deref(I, st, args[0])
    if isinstance(v, VSlice):
        return [(st, VSeq(("slice", v.buf, v.start, v.len), None))]
    if isinstance(v, VSeq):
        return [(st, v)]
    raise Unanalysable("to_vec of %r" % (v,))


@ext("core:[T]::first", "core:[T]::get")
def h_slice_first(I, st, callee, target, args, ctx):
    v = deref(I, st, args[0])
    if isinstance(v, VList) and target["def"].endswith("::get"):
        # a constant table: Some(&table[i]) when i is in range
        il = lin_of(st, args[1])
        vals = st.lin_set(il)
        if not vals.is_single():
            sa = il.single_atom()
            if sa and abs(sa[1]) == 1 and vals.size() <= 256:
                at, k, c = sa
                raise NeedSplit(at, [IntSet.of((x - c) * k) for x in vals.values()])
            raise Unanalysable("get on a table with a symbolic index")
        i = vals.single()
        if 0 <= i < len(v.items):
            c = I.new_cell(st, v.items[i])
            return [(st, mk_some(VRef(c, ())))]
        return [(st, NONE)]
    if isinstance(v, VList) and target["def"].endswith("::first"):
        if v.items:
            c = I.new_cell(st, v.items[0])
            return [(st, mk_some(VRef(c, ())))]
        return [(st, NONE)]
    if not isinstance(v, VSlice):
        raise Unanalysable("first/get on %r" % (v,))
    idx = 0
    if target["def"].endswith("::get"):
        idx = const_of(st, args[1], "get index")
        if idx is None:
            raise Unanalysable("slice::get with a non-constant index")
    present = decide_le0(st, -v.len + idx + 1, "slice first/get")     # len > idx
    if present:
        c = I.new_cell(st, VInt(8, False, lin=Lin.atom(("byte", v.buf, (v.start + idx).key()))))
        return [(st, mk_some(VRef(c, ())))]
    return [(st, NONE)]


@ext("core:Option<T>::copied", "core:Option<T>::cloned", "core:Option<&T>::copied", "core:Option<&T>::cloned", "core:Option<&mut T>::copied", "core:Option<&mut T>::cloned")
def h_opt_copied(I, st, callee, target, args, ctx):
    v = args[0]
    if isinstance(v, VAdt) and v.adt == OPTION:
        return [(st, mk_some(deref(I, st, v.fields[0])) if v.variant == 1 else NONE)]
    raise Unanalysable("Option::copied on %r" % (v,))


@ext("core:Option<T>::unwrap_or", "core:Option<T>::unwrap_or_default")
def h_opt_unwrap_or(I, st, callee, target, args, ctx):
    v = args[0]
    if not (isinstance(v, VAdt) and v.adt == OPTION) and isinstance(v, (VApp, VSymEnum)):
        # the Option comes from a decoder (`parse_minsec(x).unwrap_or_default()`): one case per outcome
        out = []
        for s2, o in _opt_val(I, st, v):
            out += h_opt_unwrap_or(I, s2, callee, target, [o] + list(args[1:]), ctx)
        return out
    if isinstance(v, VAdt) and v.adt == OPTION:
        if v.variant == 1:
            return [(st, v.fields[0])]
        if len(args) > 1:
            return [(st, args[1])]
        dest = ctx["term"]["dest"]
        ty = ctx["body"]["locals"][dest["l"]]
        t = I.rty(ty)
        if t["k"] == "adt" and t["def"].startswith(I.f.crate + "::"):
            # `unwrap_or_default()` of a type of the crate: its own Default impl (derived or not)
            short = t["def"][len(I.f.crate) + 2:]
            cands = [b for b in I.f.bodies.values() if (b.get("impl_trait") or "").endswith("default::Default") and b["def"].endswith("::default")
                     and (b.get("impl_self") or "").split("<")[0] == short]
            if len(cands) == 1:
                return I.call_local(st, cands[0], [], ctx)
        return [(st, default_of(I, ty))]
    raise Unanalysable("Option::unwrap_or on %r" % (v,))


@ext("core:Option<T>::ok_or", "core:Option<T>::ok_or_else")
def h_opt_ok_or(I, st, callee, target, args, ctx):
    v = args[0]
    if isinstance(v, VAdt) and v.adt == OPTION:
        if v.variant == 1:
            return [(st, mk_ok(v.fields[0]))]
        if target["def"].endswith("ok_or_else"):
            return [(s2, mk_err(e)) for s2, e in I.apply_callable(st, args[1], [], ctx)]
        return [(st, mk_err(args[1]))]
    raise Unanalysable("Option::ok_or on %r" % (v,))


@ext("core:Option<T>::and_then")
def h_opt_and_then(I, st, callee, target, args, ctx):
    v, f = args
    if isinstance(v, VAdt) and v.adt == OPTION:
        if v.variant == 0:
            return [(st, NONE)]
        return I.apply_callable(st, f, [v.fields[0]], ctx)
    raise Unanalysable("Option::and_then on %r" % (v,))


@ext("core:Result<T, E>::is_ok", "core:Result<T, E>::is_err")
def h_res_is_ok(I, st, callee, target, args, ctx):
    v = deref(I, st, args[0])
    if isinstance(v, VAdt) and v.adt == RESULT:
        okk = v.variant == 0
        return [(st, VBool(okk if target["def"].endswith("is_ok") else not okk))]
    raise Unanalysable("Result::is_ok on %r" % (v,))


@ext("core:Result<T, E>::and_then")
def h_res_and_then(I, st, callee, target, args, ctx):
    v, f = args
    if isinstance(v, VOpaque):
        out = []
        for s2, r in opaque_result_cases(I, st, v):
            out += h_res_and_then(I, s2, callee, target, [r, f], ctx)
        return out
    if isinstance(v, VAdt) and v.adt == RESULT:
        if v.variant == 1:
            return [(st, v)]
        return I.apply_callable(st, f, [v.fields[0]], ctx)
    raise Unanalysable("Result::and_then on %r" % (v,))


@ext("core:char::from", "core::char::convert::{impl#1}::from")
def h_char_from(I, st, callee, target, args, ctx):
    v = args[0]
    if isinstance(v, VInt):
        return [(st, VInt(32, False, lin=lin_of(st, v)))]
    raise Unanalysable("char::from %r" % (v,))


# ---- predicate-driven byte runs (take_while*, take_till*) and ASCII class predicates -----------

for _k, _kind in [
    ("nom::bytes::complete::take_while_m_n", "take_while_m_n"),
    ("nom::bytes::complete::take_while", "take_while"),
    ("nom::bytes::complete::take_while1", "take_while1"),
    ("nom::bytes::complete::take_till", "take_till"),
    ("nom::bytes::complete::take_till1", "take_till1"),
]:
    EXT[_k] = _mk(_kind)
    CONTRACT[_k] = "total"


def _cls(*ranges):
    out = IntSet.empty()
    for lo, hi in ranges:
        out = out.union(IntSet.range(lo, hi))
    return out


# nom 7.1.3 src/character/mod.rs (pinned): the byte predicates
NOM_BYTE_CLASSES = {
    "nom::character::is_digit": _cls((0x30, 0x39)),
    "nom::character::is_hex_digit": _cls((0x30, 0x39), (0x41, 0x46), (0x61, 0x66)),
    "nom::character::is_oct_digit": _cls((0x30, 0x37)),
    "nom::character::is_alphabetic": _cls((0x41, 0x5A), (0x61, 0x7A)),
    "nom::character::is_alphanumeric": _cls((0x30, 0x39), (0x41, 0x5A), (0x61, 0x7A)),
    "nom::character::is_space": _cls((0x20, 0x20), (0x09, 0x09)),
    "nom::character::is_newline": _cls((0x0A, 0x0A)),
}


def byte_class_of(I, st, f, what):
    """the set of byte values on which a predicate (closure without symbolic captures, or a local
    function) returns true; exact or Unanalysable"""
    if isinstance(f, VRef):
        f = I.read_ref(st, f)
    if isinstance(f, VClosure):
        defn, ups = f.defn, list(f.upvars)
    elif isinstance(f, VFn):
        defn, ups = f.callee["def"], []
    else:
        raise Unanalysable("%s: predicate is %r" % (what, f))
    if defn not in I.f.bodies:
        known = NOM_BYTE_CLASSES.get(defn)
        if known is not None and not ups:
            return known
        raise Unanalysable("%s: predicate %s has no analysable body" % (what, defn))
    argsets = [IntSet.range(0, 255)]
    for u in ups:
        if isinstance(u, VRef):
            u = I.read_ref(st, u)
        if not isinstance(u, VInt) or not lin_of(st, u).is_const():
            raise Unanalysable("%s: predicate captures a non-constant value" % what)
        argsets.append(IntSet.of(lin_of(st, u).c))
    res, atoms = I.leaf_summary(defn, argsets)
    yes, no = IntSet.empty(), IntSet.empty()
    for s2, rv in res:
        if not isinstance(rv, VBool):
            raise Unanalysable("%s: predicate returned %r" % (what, rv))
        d = s2.decide(rv.cond)
        if d is True:
            yes = yes.union(s2.aset(atoms[0]))
        elif d is False:
            no = no.union(s2.aset(atoms[0]))
        else:
            for s3 in s2.copy().assume(rv.cond, True):
                yes = yes.union(s3.aset(atoms[0]))
            for s3 in s2.copy().assume(rv.cond, False):
                no = no.union(s3.aset(atoms[0]))
    yes, no = yes.intersect(IntSet.range(0, 255)), no.intersect(IntSet.range(0, 255))
    if not yes.intersect(no).is_empty() or yes.union(no) != IntSet.range(0, 255):
        raise Unanalysable("%s: predicate is not a function of the byte alone" % what)
    return yes


def _run_parser(kind):
    def p(I, st, pv, inp, ctx):
        sl = _byte_input(inp)
        if kind == "take_while_m_n":
            m = const_of(st, pv.args[0], "take_while_m_n m")
            n = const_of(st, pv.args[1], "take_while_m_n n")
            if m is None or n is None:
                raise Unanalysable("take_while_m_n with non-constant bounds")
            cls = byte_class_of(I, st, pv.args[2], kind)
        else:
            m, n = (1 if kind.endswith("1") else 0), None
            cls = byte_class_of(I, st, pv.args[0], kind)
            if kind.startswith("take_till"):
                cls = IntSet.range(0, 255).minus(cls)
        param = (cls.iv, m, n)
        bkey = sl.buf if not isinstance(sl.buf, tuple) else tuple(sl.buf)
        out = []
        if m > 0:
            ok, no = _fork(st, ("run", bkey, sl.start.key(), param))
        else:
            ok, no = st, None
        if ok is not None:
            q = _fresh_pos(ok, "run", sl.start)
            ql = Lin.atom(q)
            total = sl.start + sl.len
            ok = _add_fact_le0(ok, sl.start + m - ql)
            if ok is not None and n is not None:
                ok = _add_fact_le0(ok, ql - sl.start - n)
            ok = _add_fact_le0(ok, ql - total) if ok is not None else None
            if ok is not None and (m == 0 or (_constrain_byte(ok, sl.buf, sl.start, cls) and _constrain_byte(ok, sl.buf, ql - 1, cls))):
                ok.event("g", "run", param, sl.buf, sl.start, ql)
                out.append((ok, ok_pair(VSlice(sl.buf, ql, total - ql), VSlice(sl.buf, sl.start, ql - sl.start))))
        if no is not None:
            no.event("gfail", "run", param, sl.buf, sl.start)
            out.append((no, nom_err(I, "Error", VOpaque("TakeWhile"))))
        return out
    return p


for _kind in ("take_while_m_n", "take_while", "take_while1", "take_till", "take_till1"):
    PARSERS[_kind] = _run_parser(_kind)


_ASCII_CLASSES = {
    "is_ascii_alphabetic": IntSet([(65, 90), (97, 122)]),
    "is_ascii_digit": IntSet([(48, 57)]),
    "is_ascii_uppercase": IntSet([(65, 90)]),
    "is_ascii_lowercase": IntSet([(97, 122)]),
    "is_ascii_alphanumeric": IntSet([(48, 57), (65, 90), (97, 122)]),
    "is_ascii_hexdigit": IntSet([(48, 57), (65, 70), (97, 102)]),
    "is_ascii_whitespace": IntSet([(9, 10), (12, 13), (32, 32)]),
    "is_ascii_punctuation": IntSet([(33, 47), (58, 64), (91, 96), (123, 126)]),
    "is_ascii_graphic": IntSet([(33, 126)]),
    "is_ascii_control": IntSet([(0, 31), (127, 127)]),
    "is_ascii": IntSet([(0, 127)]),
}


def _ascii_pred(cls):
    def h(I, st, callee, target, args, ctx):
        v = deref(I, st, args[0])
        if not isinstance(v, VInt):
            raise Unanalysable("ascii class predicate on %r" % (v,))
        lin = lin_of(st, v)
        sa = lin.single_atom()
        if lin.is_const():
            return [(st, VBool(cls.contains(lin.c)))]
        if sa and sa[1] == 1:
            return [(st, VBool(("in", sa[0], cls.shift(-sa[2]))))]
        raise Unanalysable("ascii class predicate on a compound value")
    return h


for _n, _c in _ASCII_CLASSES.items():
    for _t in ("u8", "char"):
        EXT["core:%s::%s" % (_t, _n)] = _ascii_pred(_c)
        CONTRACT["core:%s::%s" % (_t, _n)] = "total"


@ext("core:RangeInclusive<Idx>::new")
def h_range_inclusive_new(I, st, callee, target, args, ctx):
    # a..=b iterates like a..b+1 (the bound is only compared with, never stored in the index type)
    lo, hi = args
    if not (isinstance(lo, VInt) and isinstance(hi, VInt)):
        raise Unanalysable("RangeInclusive::new(%r, %r)" % (lo, hi))
    return [(st, VAdt("core::ops::range::Range", 0, (lo, VInt(hi.w, hi.s, lin=lin_of(st, hi) + 1))))]


def _const_bytes(I, st, v):
    if isinstance(v, (VRef, VBox)):
        v = deref(I, st, v)
    if isinstance(v, VSlice) and isinstance(v.buf, tuple) and v.buf[0] == "cbytes" and v.start.is_const() and v.len.is_const():
        return v.buf[1][v.start.c:v.start.c + v.len.c]
    if isinstance(v, VStr) and v.term[0] == "cstr":
        return v.term[1]
    if isinstance(v, VList) and all(isinstance(x, VInt) and lin_of(st, x).is_const() for x in v.items):
        return bytes(lin_of(st, x).c for x in v.items)
    raise Unanalysable("constant byte pattern expected, got %r" % (v,))


@ext("core:[T]::strip_prefix", "core:[T]::starts_with")
def h_strip_prefix(I, st, callee, target, args, ctx):
    sl = deref(I, st, args[0])
    if not isinstance(sl, VSlice):
        raise Unanalysable("strip_prefix on %r" % (sl,))
    pre = _const_bytes(I, st, args[1])
    n = len(pre)
    strip = target["def"].endswith("strip_prefix")
    yes = (lambda s: mk_some(VSlice(sl.buf, sl.start + n, sl.len - n))) if strip else (lambda s: VBool(True))
    no = NONE if strip else VBool(False)
    if n == 0:
        return [(st, yes(st))]
    long_enough = decide_le0(st, -sl.len + n, "strip_prefix")     # len >= n
    if not long_enough:
        return [(st, no)]
    out = []
    if n == 1:
        # exact on both sides: the first byte is / is not the pattern byte
        cur = st.aset(("byte", sl.buf, sl.start.key()))
        s1 = st.copy()
        if _constrain_byte(s1, sl.buf, sl.start, IntSet.of(pre[0])):
            out.append((s1, yes(s1)))
        s2 = st.copy()
        if _constrain_byte(s2, sl.buf, sl.start, IntSet.range(0, 255).minus(IntSet.of(pre[0]))):
            out.append((s2, no))
        return out
    bkey = sl.buf if not isinstance(sl.buf, tuple) else tuple(sl.buf)
    ok, nok = _fork(st, ("prefix", bkey, sl.start.key(), pre))
    if ok is not None and all(_constrain_byte(ok, sl.buf, sl.start + i, IntSet.of(b)) for i, b in enumerate(pre)):
        out.append((ok, yes(ok)))
    if nok is not None:
        out.append((nok, no))
    return out


def _nocap(k):
    """a raw value key without capacity annotations (Vec and heapless::Vec contents compare equal)"""
    if isinstance(k, tuple) and k:
        if k[0] == "list" and len(k) >= 2 and (k[1] is None or isinstance(k[1], int)):
            return ("list", None) + tuple(_nocap(x) for x in k[2:])
        if k[0] == "elems" and len(k) == 7:
            return tuple(_nocap(x) for x in k[:6]) + (None,)
        if k[0] == "seq" and len(k) == 3:
            return ("seq", _nocap(k[1]), None)
        return tuple(_nocap(x) for x in k)
    return k


@ext("core:str::find", "core:str::rfind")
def h_str_find(I, st, callee, target, args, ctx):
    v = deref(I, st, args[0])
    if not isinstance(v, VStr):
        raise Unanalysable("str::find on %r" % (v,))
    pat = args[1]
    pk = lin_of(st, pat).c if isinstance(pat, VInt) and lin_of(st, pat).is_const() else valkey(pat)
    key = _nocap((target["def"].rsplit("::", 1)[1], v.term, pk))
    s1, s2 = st, st.copy()
    s1.pc.opq[key] = True
    s2.pc.opq[key] = False
    ln = lin_of(st, I.len_of(st, v))
    pos = VInt(64, False, lin=Lin.atom(("strpos",) + tuple(key) + (0, MAXLEN)))
    outs = []
    x = _add_fact_le0(s1, lin_of(s1, pos) - ln + 1)      # position < len
    if x is not None:
        outs.append((x, mk_some(pos)))
    outs.append((s2, NONE))
    return outs


@ext("core:str::len")
def h_str_len(I, st, callee, target, args, ctx):
    return [(st, I.len_of(st, args[0]))]


@ext("core:str::get")
def h_str_get(I, st, callee, target, args, ctx):
    v = deref(I, st, args[0])
    idx = args[1]
    if not isinstance(v, VStr) or not (isinstance(idx, VAdt) and "::ops::range::" in idx.adt):
        raise Unanalysable("str::get(%r) on %r" % (idx, v))
    kind = idx.adt.rsplit("::", 1)[1]
    ln = lin_of(st, I.len_of(st, v))
    lo, hi = Lin.const(0), ln
    if kind == "Range":
        lo, hi = lin_of(st, idx.fields[0]), lin_of(st, idx.fields[1])
    elif kind == "RangeFrom":
        lo = lin_of(st, idx.fields[0])
    elif kind == "RangeTo":
        hi = lin_of(st, idx.fields[0])
    elif kind != "RangeFull":
        raise Unanalysable("str::get with %s" % kind)
    key = _nocap(("str_get", v.term, lo.key(), hi.key()))
    s1, s2 = st, st.copy()
    s1.pc.opq[key] = True
    s2.pc.opq[key] = False
    return [(s1, mk_some(VStr(("substr", v.term, lo.key(), hi.key())))), (s2, NONE)]


@parser("map_parser")
def p_map_parser(I, st, pv, inp, ctx):
    """map_parser(p, q): q is applied to the output of p; what q leaves over is dropped"""
    out = []
    for s2, r in run(I, st, pv.args[0], inp, ctx):
        if not is_ok(r):
            out.append((s2, r))
            continue
        rest, o1 = r.fields[0].items
        for s3, r2 in run(I, s2, pv.args[1], o1, ctx):
            if is_ok(r2):
                out.append((s3, ok_pair(rest, r2.fields[0].items[1])))
            else:
                out.append((s3, r2))
    return out


# ---- further core items met in refactorings ------------------------------------------------------

@ext("core::convert::identity")
def h_identity(I, st, callee, target, args, ctx):
    return [(st, args[0])]


@ext("core:[T]::split_first", "core:[T]::split_last", "core:[T]::last")
def h_split_first(I, st, callee, target, args, ctx):
    v = deref(I, st, args[0])
    if not isinstance(v, VSlice):
        raise Unanalysable("split_first on %r" % (v,))
    name = target["def"].rsplit("::", 1)[1]
    nonempty = decide_le0(st, -v.len + 1, name)
    if not nonempty:
        return [(st, NONE)]
    if name == "split_first":
        c = I.new_cell(st, VInt(8, False, lin=Lin.atom(("byte", v.buf, v.start.key()))))
        return [(st, mk_some(VTuple((VRef(c, ()), VSlice(v.buf, v.start + 1, v.len - 1)))))]
    lastpos = v.start + v.len - 1
    c = I.new_cell(st, VInt(8, False, lin=Lin.atom(("byte", v.buf, lastpos.key()))))
    if name == "last":
        return [(st, mk_some(VRef(c, ())))]
    return [(st, mk_some(VTuple((VRef(c, ()), VSlice(v.buf, v.start, v.len - 1)))))]


def _checked_shift(op):
    def h(I, st, callee, target, args, ctx):
        a, b = args
        if not (isinstance(a, VInt) and isinstance(b, VInt)):
            raise Unanalysable("checked shift of %r by %r" % (a, b))
        lb = lin_of(st, b)
        vals = st.lin_set(lb)
        if not vals.is_single():
            sa = lb.single_atom()
            if sa and abs(sa[1]) == 1 and vals.size() <= 64:
                at, k, c = sa
                raise NeedSplit(at, [IntSet.of((x - c) * k) for x in vals.values()])
            raise Unanalysable("checked shift by a symbolic amount")
        n = vals.single()
        if n < 0 or n >= a.w:
            return [(st, NONE)]
        return [(st, mk_some(I.binop(st, op, a, mk_const(n, 32, False))))]
    return h


for _t in ("u8", "u16", "u32", "u64", "usize", "i8", "i16", "i32", "i64", "isize"):
    EXT["core:%s::checked_shr" % _t] = _checked_shift("Shr")
    EXT["core:%s::checked_shl" % _t] = _checked_shift("Shl")
    CONTRACT["core:%s::checked_shr" % _t] = "total"
    CONTRACT["core:%s::checked_shl" % _t] = "total"


def _bool_cases(I, st, b, what):
    """[(st', truth)] for a boolean value, splitting when it is undecided"""
    if not isinstance(b, VBool):
        raise Unanalysable("%s on %r" % (what, b))
    d = st.decide(b.cond)
    if d is not None:
        return [(st, d)]
    return [(s, True) for s in st.copy().assume(b.cond, True)] + [(s, False) for s in st.copy().assume(b.cond, False)]


@ext("core:Option<T>::filter")
def h_opt_filter(I, st, callee, target, args, ctx):
    v, f = args
    if not (isinstance(v, VAdt) and v.adt == OPTION):
        raise Unanalysable("Option::filter on %r" % (v,))
    if v.variant == 0:
        return [(st, NONE)]
    out = []
    c = I.new_cell(st, v.fields[0])
    for s2, b in I.apply_callable(st, f, [VRef(c, ())], ctx):
        for s3, truth in _bool_cases(I, s2, b, "Option::filter predicate"):
            out.append((s3, v if truth else NONE))
    return out


@ext("core:bool::then_some", "core:bool::then")
def h_bool_then(I, st, callee, target, args, ctx):
    b, x = args
    out = []
    for s2, truth in _bool_cases(I, st, b, "bool::then"):
        if not truth:
            out.append((s2, NONE))
        elif target["def"].endswith("then_some"):
            out.append((s2, mk_some(x)))
        else:
            for s3, v in I.apply_callable(s2, x, [], ctx):
                out.append((s3, mk_some(v)))
    return out


@ext("core:Option<T>::unwrap_or_else")
def h_opt_unwrap_or_else(I, st, callee, target, args, ctx):
    v, f = args
    if isinstance(v, VAdt) and v.adt == OPTION:
        if v.variant == 1:
            return [(st, v.fields[0])]
        return I.apply_callable(st, f, [], ctx)
    raise Unanalysable("Option::unwrap_or_else on %r" % (v,))


@ext("core:RangeInclusive<Idx>::contains", "core:Range<Idx>::contains")
def h_range_contains(I, st, callee, target, args, ctx):
    r = deref(I, st, args[0])
    x = deref(I, st, args[1])
    if isinstance(r, VAdt) and r.adt.endswith("ops::range::RangeInclusive") and len(r.fields) == 3 and isinstance(x, VInt):
        # a constant `a..=b` (start, end, exhausted = false)
        lo, hi, ex = r.fields
        if not (isinstance(ex, VBool) and ex.cond is False):
            raise Unanalysable("contains on a possibly exhausted RangeInclusive")
        c1 = I.cmp(st, "Ge", lin_of(st, x), lin_of(st, lo)).cond
        c2 = I.cmp(st, "Le", lin_of(st, x), lin_of(st, hi)).cond
        return [(st, VBool(simplify(("and", c1, c2))))]
    if not (isinstance(r, VAdt) and r.adt.endswith("ops::range::Range") and isinstance(x, VInt)):
        raise Unanalysable("Range::contains(%r, %r)" % (r, x))
    lo, hi = r.fields            # half-open (RangeInclusive::new stores end + 1)
    c1 = I.cmp(st, "Ge", lin_of(st, x), lin_of(st, lo)).cond
    c2 = I.cmp(st, "Lt", lin_of(st, x), lin_of(st, hi)).cond
    return [(st, VBool(simplify(("and", c1, c2))))]


@ext("core:Result<T, E>::or_else")
def h_res_or_else(I, st, callee, target, args, ctx):
    v, f = args
    if isinstance(v, VAdt) and v.adt == RESULT:
        if v.variant == 0:
            return [(st, v)]
        return I.apply_callable(st, f, [v.fields[0]], ctx)
    raise Unanalysable("Result::or_else on %r" % (v,))


@ext("core:Option<Result<T, E>>::transpose", "core:Option<std::result::Result<T, E>>::transpose", "core:Option<core::result::Result<T, E>>::transpose")
def h_opt_transpose(I, st, callee, target, args, ctx):
    v = args[0]
    if isinstance(v, VAdt) and v.adt == OPTION:
        if v.variant == 0:
            return [(st, mk_ok(NONE))]
        inner = v.fields[0]
        if isinstance(inner, VOpaque):
            out = []
            for s2, r in opaque_result_cases(I, st, inner):
                out += h_opt_transpose(I, s2, callee, target, [mk_some(r)], ctx)
            return out
        if isinstance(inner, VAdt) and inner.adt == RESULT:
            if inner.variant == 0:
                return [(st, mk_ok(mk_some(inner.fields[0])))]
            return [(st, mk_err(inner.fields[0]))]
    raise Unanalysable("Option::transpose on %r" % (v,))


# ---- more Option / Result adaptors (concrete Option / Result values; leaf applications are forced) --

def _opt_val(I, st, v):
    """[(st, concrete Option)]"""
    out = []
    for s2, x in force_app(I, st, v):
        if isinstance(x, VAdt) and x.adt == OPTION:
            out.append((s2, x))
        elif isinstance(x, VSymEnum) and x.adt == OPTION:
            for s3 in s2.copy().assume(("in", x.disc, IntSet.of(1)), True):
                out.append((s3, mk_some(x.by_variant[1][0])))
            for s3 in s2.copy().assume(("in", x.disc, IntSet.of(0)), True):
                out.append((s3, NONE))
        else:
            raise Unanalysable("Option adaptor on %r" % (x,))
    return out


@ext("core:Option<T>::map_or", "core:Option<T>::map_or_else")
def h_opt_map_or(I, st, callee, target, args, ctx):
    v, dflt, f = args
    out = []
    lazy = target["def"].endswith("map_or_else")
    for s2, o in _opt_val(I, st, v):
        if o.variant == 1:
            out += I.apply_callable(s2, f, [o.fields[0]], ctx)
        elif lazy:
            out += I.apply_callable(s2, dflt, [], ctx)
        else:
            out.append((s2, dflt))
    return out


@ext("core:Option<T>::is_some_and", "core:Option<T>::is_none_or")
def h_opt_is_some_and(I, st, callee, target, args, ctx):
    v, f = args
    none_val = target["def"].endswith("is_none_or")
    out = []
    for s2, o in _opt_val(I, st, v):
        if o.variant == 0:
            out.append((s2, VBool(none_val)))
        else:
            out += I.apply_callable(s2, f, [o.fields[0]], ctx)
    return out


@ext("core:Option<T>::or", "core:Option<T>::or_else", "core:Option<T>::xor")
def h_opt_or(I, st, callee, target, args, ctx):
    v, other = args
    name = target["def"].rsplit("::", 1)[1]
    out = []
    for s2, o in _opt_val(I, st, v):
        if name == "or":
            out.append((s2, o if o.variant == 1 else other))
        elif name == "or_else":
            if o.variant == 1:
                out.append((s2, o))
            else:
                out += I.apply_callable(s2, other, [], ctx)
        else:
            for s3, o2 in _opt_val(I, s2, other):
                out.append((s3, o if (o.variant == 1 and o2.variant == 0) else (o2 if (o.variant == 0 and o2.variant == 1) else NONE)))
    return out


@ext("core:Option<T>::zip")
def h_opt_zip(I, st, callee, target, args, ctx):
    a, b = args
    out = []
    for s2, x in _opt_val(I, st, a):
        for s3, y in _opt_val(I, s2, b):
            out.append((s3, mk_some(VTuple((x.fields[0], y.fields[0]))) if (x.variant == 1 and y.variant == 1) else NONE))
    return out


@ext("core:Option<T>::as_ref", "core:Option<T>::as_mut")
def h_opt_as_ref(I, st, callee, target, args, ctx):
    r = args[0]
    v = deref(I, st, r)
    if isinstance(v, VAdt) and v.adt == OPTION:
        if v.variant == 0:
            return [(st, NONE)]
        if isinstance(r, VRef):
            return [(st, mk_some(VRef(r.cell, r.path + (("dc", 1), ("f", 0)))))]
        c = I.new_cell(st, v.fields[0])
        return [(st, mk_some(VRef(c, ())))]
    raise Unanalysable("Option::as_ref on %r" % (v,))


@ext("core:Result<T, E>::err")
def h_res_err(I, st, callee, target, args, ctx):
    v = args[0]
    if isinstance(v, VAdt) and v.adt == RESULT:
        return [(st, mk_some(v.fields[0]) if v.variant == 1 else NONE)]
    raise Unanalysable("Result::err on %r" % (v,))


@ext("core:Result<T, E>::map_or", "core:Result<T, E>::map_or_else")
def h_res_map_or(I, st, callee, target, args, ctx):
    v, dflt, f = args
    if isinstance(v, VOpaque):
        out = []
        for s2, r in opaque_result_cases(I, st, v):
            out += h_res_map_or(I, s2, callee, target, [r, dflt, f], ctx)
        return out
    if isinstance(v, VAdt) and v.adt == RESULT:
        if v.variant == 0:
            return I.apply_callable(st, f, [v.fields[0]], ctx)
        if target["def"].endswith("map_or_else"):
            return I.apply_callable(st, dflt, [v.fields[0]], ctx)
        return [(st, dflt)]
    raise Unanalysable("Result::map_or on %r" % (v,))


def _abs_diff(I, st, callee, target, args, ctx):
    a, b = args
    la, lb = lin_of(st, a), lin_of(st, b)
    d = decide_le0(st, lb - la, "abs_diff")       # b <= a
    return [(st, VInt(a.w, False, lin=(la - lb) if d else (lb - la)))]


for _t in ("u8", "u16", "u32", "u64", "usize"):
    EXT["core:%s::abs_diff" % _t] = _abs_diff
    CONTRACT["core:%s::abs_diff" % _t] = "total"


def _div_ceil(I, st, callee, target, args, ctx):
    a, b = args
    lb = lin_of(st, b)
    if not (isinstance(a, VInt) and lb.is_const() and lb.c > 0):
        raise Unanalysable("div_ceil by a non-constant")
    num = VInt(a.w, a.s, lin=lin_of(st, a) + (lb.c - 1))
    return [(st, I.binop(st, "Div", num, mk_const(lb.c, a.w, a.s)))]


for _t in ("u8", "u16", "u32", "u64", "usize"):
    EXT["core:%s::div_ceil" % _t] = _div_ceil
    CONTRACT["core:%s::div_ceil" % _t] = "total"


EXT["nom::combinator::cond"] = _mk("cond")
CONTRACT["nom::combinator::cond"] = "total"


@parser("cond")
def p_cond(I, st, pv, inp, ctx):
    """cond(b, p): Some(output of p) when b, else None without consuming"""
    b, p = pv.args
    out = []
    for s2, truth in _bool_cases(I, st, b, "nom cond"):
        if not truth:
            out.append((s2, ok_pair(inp, NONE)))
            continue
        for s3, r in run(I, s2, p, inp, ctx):
            if is_ok(r):
                rest, v = r.fields[0].items
                out.append((s3, ok_pair(rest, mk_some(v))))
            else:
                out.append((s3, r))
    return out


@ext("heapless:Vec<T, N>::from_slice")
def h_heapless_from_slice(I, st, callee, target, args, ctx):
    v = deref(I, st, args[0])
    dest = ctx["term"]["dest"]
    ty = ctx["body"]["locals"][dest["l"]] if not dest["p"] else None
    t = I.f.types[ty]
    if t["k"] == "adt" and t["def"] == RESULT and isinstance(v, VSlice):
        okt = I.rty(t["args"][0]["ty"])
        cap = vec_cap(I, okt)
        if cap is not None:
            over = decide_le0(st, -v.len + cap + 1, "heapless from_slice")   # cap < len
            if over:
                st.event("capacity_err", "try_from", cap)
                return [(st, mk_err(UNIT))]
            return [(st, mk_ok(VSeq(("slice", v.buf, v.start, v.len), cap)))]
    raise Unanalysable("heapless from_slice %r -> %s" % (v, t["text"]))


# ---- a few more nom items ---------------------------------------------------------------------------

EXT["nom::combinator::consumed"] = _mk("consumed")
CONTRACT["nom::combinator::consumed"] = "total"
EXT["nom::combinator::not"] = _mk("not")
CONTRACT["nom::combinator::not"] = "total"


@parser("consumed")
def p_consumed(I, st, pv, inp, ctx):
    out = []
    for s2, r in run(I, st, pv.args[0], inp, ctx):
        if is_ok(r) and isinstance(inp, VSlice):
            rest, v = r.fields[0].items
            if isinstance(rest, VSlice) and rest.buf == inp.buf:
                out.append((s2, ok_pair(rest, VTuple((VSlice(inp.buf, inp.start, rest.start - inp.start), v)))))
                continue
            raise Unanalysable("consumed(): remainder is not a suffix of the input")
        out.append((s2, r))
    return out


@parser("not")
def p_not(I, st, pv, inp, ctx):
    out = []
    n0 = len(st.events)
    for s2, r in run(I, st, pv.args[0], inp, ctx):
        if is_ok(r):
            _abandon(s2, n0)
            out.append((s2, nom_err(I, "Error", VOpaque("Not"))))
        elif err_kind(I, r) == "Error":
            _abandon(s2, n0)
            out.append((s2, ok_pair(inp, UNIT)))
        else:
            out.append((s2, r))
    return out


@ext("nom::combinator::success")
def h_success(I, st, callee, target, args, ctx):
    return [(st, VParser("success", args, {"site": (ctx["body"]["def"], ctx["bb"]), "loc": ctx["term"].get("loc"), "generics": callee.get("args")}))]


@parser("success")
def p_success(I, st, pv, inp, ctx):
    return [(st, ok_pair(inp, pv.args[0]))]


@ext("nom::combinator::rest")
def h_rest(I, st, callee, target, args, ctx):
    sl = _byte_input(args[0])
    total = sl.start + sl.len
    st.event("g", "take_rest", None, sl.buf, sl.start, total)
    return [(st, ok_pair(VSlice(sl.buf, total, Lin.const(0)), sl))]


@ext("nom::combinator::eof")
def h_eof(I, st, callee, target, args, ctx):
    sl = args[0]
    if isinstance(sl, VTuple):
        s_, o = cursor_parts(I, st, sl)
        empty = decide_le0(st, s_.len.scale(8) - o, "eof")
    else:
        sl = _byte_input(sl)
        empty = decide_le0(st, sl.len, "eof")
    if empty:
        return [(st, ok_pair(args[0], args[0]))]
    return [(st, nom_err(I, "Error", VOpaque("Eof")))]


@ext("nom::bits::complete::bool")
def h_bits_bool(I, st, callee, target, args, ctx):
    sl, o = cursor_parts(I, st, args[0])
    need = 1 + o
    eof = decide_le0(st, sl.len.scale(8) - need + 1, "take eof")
    if eof:
        st.event("take_eof", sl.buf, (sl.start.scale(8) + o).key(), 1, (ctx["body"]["def"], ctx["bb"]))
        return [(st, nom_err(I, "Error", VOpaque("Eof")))]
    pos = sl.start.scale(8) + o
    posk = pos.c if pos.is_const() else pos.key()
    st.event("take", sl.buf, posk, 1, (8, False), (ctx["body"]["def"], ctx["bb"]))
    cnt = need // 8
    rest = VTuple((VSlice(sl.buf, sl.start + cnt, sl.len - cnt), mk_const(need % 8, 64, False)))
    return [(st, ok_pair(rest, VBool(("in", ("bits", sl.buf, posk, 1), IntSet.of(1)))))]


@ext("nom::character::complete::u8")
def h_nom_u8(I, st, callee, target, args, ctx):
    """decimal u8: digit1, then the value must fit (the same decision `u8::from_str` makes on digits)"""
    out = []
    for s2, r in h_digit1(I, st, callee, target, args, ctx):
        if not is_ok(r):
            out.append((s2, r))
            continue
        rest, digits = r.fields[0].items
        term = ("utf8", ("slice", digits.buf, digits.start.key(), digits.len.key()))
        s_ok, s_no = s2, s2.copy()
        s_ok.pc.opq[("from_str_ok", term, 8)] = True
        s_no.pc.opq[("from_str_ok", term, 8)] = False
        s_ok.event("from_str", term, 8, True)
        s_no.event("from_str", term, 8, False)
        out.append((s_ok, ok_pair(rest, VInt(8, False, lin=Lin.atom(("parsed", term, 8, 0, 255))))))
        out.append((s_no, nom_err(I, "Error", VOpaque("Digit"))))
    return out


@ext("core::iter::traits::iterator::Iterator::copied", "core::iter::traits::iterator::Iterator::cloned")
def h_iter_copied(I, st, callee, target, args, ctx):
    it = deref(I, st, args[0])
    if isinstance(it, VIter):
        return [(st, VParser("it_copied", [it], {}))]
    raise Unanalysable("copied() over %r" % (it,))


def _op_trait(op):
    def h(I, st, callee, target, args, ctx):
        a, b = deref(I, st, args[0]), deref(I, st, args[1])
        return [(st, I.binop(st, op, a, b))]
    return h


for _n, _op in (("bit::BitXor::bitxor", "BitXor"), ("bit::BitAnd::bitand", "BitAnd"), ("bit::BitOr::bitor", "BitOr")):
    EXT["core::ops::" + _n] = _op_trait(_op)
    CONTRACT["core::ops::" + _n] = "total"


def _is_negative(I, st, callee, target, args, ctx):
    v = args[0]
    if not isinstance(v, VInt):
        raise Unanalysable("is_negative on %r" % (v,))
    neg = target["def"].endswith("is_negative")
    r = I.binop(st, "Lt" if neg else "Gt", v, mk_const(0, v.w, v.s))
    return [(st, r)]


for _t in ("i8", "i16", "i32", "i64", "isize"):
    EXT["core:%s::is_negative" % _t] = _is_negative
    EXT["core:%s::is_positive" % _t] = _is_negative
    CONTRACT["core:%s::is_negative" % _t] = "total"
    CONTRACT["core:%s::is_positive" % _t] = "total"


@ext("core:Result<T, E>::is_ok_and", "core:Result<T, E>::is_err_and")
def h_res_is_ok_and(I, st, callee, target, args, ctx):
    v, f = args
    want_ok = target["def"].endswith("is_ok_and")
    if isinstance(v, VAdt) and v.adt == RESULT:
        if (v.variant == 0) != want_ok:
            return [(st, VBool(False))]
        return I.apply_callable(st, f, [v.fields[0]], ctx)
    raise Unanalysable("Result::is_ok_and on %r" % (v,))


@ext("core::iter::traits::iterator::Iterator::try_fold")
def h_try_fold(I, st, callee, target, args, ctx):
    """try_fold over a range with concrete bounds: the closure is applied index by index; the first
    Err / None ends the fold"""
    it, init, f = args
    r = it
    itv = I.read_ref(st, it) if isinstance(it, VRef) else it
    if not (isinstance(itv, VAdt) and itv.adt.endswith("ops::range::Range")):
        raise Unanalysable("try_fold over %r" % (itv,))
    lo, hi = itv.fields
    ll, lh = lin_of(st, lo), lin_of(st, hi)
    if not ll.is_const():
        raise Unanalysable("try_fold over a range with a symbolic start")
    if not lh.is_const():
        vals = st.lin_set(lh)
        sa = lh.single_atom()
        if vals.is_single():
            lh = Lin.const(vals.single())
        elif sa and abs(sa[1]) == 1 and vals.size() <= 64:
            at, k, c = sa
            raise NeedSplit(at, [IntSet.of((x - c) * k) for x in vals.values()])
        else:
            raise Unanalysable("try_fold over a range with a symbolic end")
    if lh.c - ll.c > 64:
        raise Unanalysable("try_fold over more than 64 indices")
    states = [(st, init)]
    done = []
    for i in range(ll.c, lh.c):
        nxt = []
        for s2, acc in states:
            for s3, rv in I.apply_callable(s2, f, [acc, mk_const(i, lo.w, lo.s)], ctx):
                if isinstance(rv, VAdt) and rv.adt == RESULT:
                    (nxt if rv.variant == 0 else done).append((s3, rv.fields[0] if rv.variant == 0 else rv))
                elif isinstance(rv, VAdt) and rv.adt == OPTION:
                    (nxt if rv.variant == 1 else done).append((s3, rv.fields[0] if rv.variant == 1 else rv))
                else:
                    raise Unanalysable("try_fold closure returned %r" % (rv,))
        states = nxt
    # which Try type: decided by the closure's results; with zero iterations use the destination type
    dest = ctx["term"]["dest"]
    ty = I.f.types[ctx["body"]["locals"][dest["l"]]] if not dest["p"] else None
    is_opt = ty is not None and ty.get("def") == OPTION
    out = list(done)
    for s2, acc in states:
        out.append((s2, mk_some(acc) if is_opt else mk_ok(acc)))
    return out


# ---- further integer helpers ----------------------------------------------------------------------

def _rem_euclid(I, st, callee, target, args, ctx):
    a, b = args
    if isinstance(a, VInt) and not a.s:
        return [(st, I.binop(st, "Rem", a, b))]
    raise Unanalysable("rem_euclid on a signed value")


def _div_euclid(I, st, callee, target, args, ctx):
    a, b = args
    if isinstance(a, VInt) and not a.s:
        return [(st, I.binop(st, "Div", a, b))]
    raise Unanalysable("div_euclid on a signed value")


def _clamp(I, st, callee, target, args, ctx):
    x, lo, hi = args
    lx, ll, lh = lin_of(st, x), lin_of(st, lo), lin_of(st, hi)
    below = decide_le0(st, lx - ll + 1, "clamp")       # x < lo
    if below:
        return [(st, lo)]
    above = decide_le0(st, lh - lx + 1, "clamp")       # x > hi
    return [(st, hi if above else x)]


def _to_bytes(order):
    def h(I, st, callee, target, args, ctx):
        v = args[0]
        if not isinstance(v, VInt):
            raise Unanalysable("to_bytes of %r" % (v,))
        n = v.w // 8
        items = []
        for i in range(n):
            sh = 8 * i if order == "le" else 8 * (n - 1 - i)
            part = I.binop(st, "Shr", v, mk_const(sh, 32, False)) if sh else v
            items.append(I.cast_to_width(st, part, 8))
        return [(st, VList(items))]
    return h


def _pow(I, st, callee, target, args, ctx):
    a, e = args
    la, le = lin_of(st, a), lin_of(st, e)
    if la.is_const() and le.is_const():
        r = la.c ** le.c
        tr = ty_range(a.w, a.s)
        okk = tr.contains(r)
        panic_obligation(I, st, ctx, "Overflow(pow)", okk, None if okk else "pow overflows")
        return [(st, mk_const(r & ((1 << a.w) - 1), a.w, a.s))]
    raise Unanalysable("pow of a symbolic value")


def _const_bitcount(name):
    def h(I, st, callee, target, args, ctx):
        v = args[0]
        lv = lin_of(st, v)
        if lv.is_const():
            c = lv.c & ((1 << v.w) - 1)
            if name == "count_ones":
                r = bin(c).count("1")
            elif name == "count_zeros":
                r = v.w - bin(c).count("1")
            else:
                r = v.w if c == 0 else (c & -c).bit_length() - 1
            return [(st, mk_const(r, 32, False))]
        raise Unanalysable("%s of a symbolic value" % name)
    return h


for _t in ("u8", "u16", "u32", "u64", "usize", "i8", "i16", "i32", "i64", "isize"):
    for _n, _h in (("rem_euclid", _rem_euclid), ("div_euclid", _div_euclid), ("to_le_bytes", _to_bytes("le")), ("to_be_bytes", _to_bytes("be")),
                   ("pow", _pow), ("count_ones", _const_bitcount("count_ones")), ("count_zeros", _const_bitcount("count_zeros")),
                   ("trailing_zeros", _const_bitcount("trailing_zeros"))):
        EXT["core:%s::%s" % (_t, _n)] = _h
        CONTRACT["core:%s::%s" % (_t, _n)] = "total" if _n != "pow" else "pre"
EXT["core::cmp::Ord::clamp"] = _clamp
CONTRACT["core::cmp::Ord::clamp"] = "total"


# ---- ninth round ---------------------------------------------------------------------------------

@ext("core:Option<(T, U)>::unzip")
def h_opt_unzip(I, st, callee, target, args, ctx):
    out = []
    for s2, x in _opt_val(I, st, args[0]):
        if x.variant == 1:
            t = x.fields[0]
            if not isinstance(t, VTuple) or len(t.items) != 2:
                raise Unanalysable("Option::unzip of %r" % (t,))
            out.append((s2, VTuple((mk_some(t.items[0]), mk_some(t.items[1])))))
        else:
            out.append((s2, VTuple((NONE, NONE))))
    return out


def _from_bytes(order, w, s):
    def h(I, st, callee, target, args, ctx):
        v = args[0]
        if not isinstance(v, VList) or len(v.items) != w // 8 or not all(isinstance(x, VInt) and x.w == 8 and not x.s for x in v.items):
            raise Unanalysable("from_bytes of %r" % (v,))
        items = list(v.items) if order == "le" else list(reversed(v.items))
        total = Lin.const(0)
        for i, x in enumerate(items):
            total = total + lin_of(st, x).scale(1 << (8 * i))
        return [(st, I.int_to_int(st, VInt(w, False, lin=total), w, s))]
    return h


for _t, _w, _s in (("u8", 8, False), ("u16", 16, False), ("u32", 32, False), ("u64", 64, False), ("usize", 64, False),
                   ("i8", 8, True), ("i16", 16, True), ("i32", 32, True), ("i64", 64, True), ("isize", 64, True)):
    for _o in ("le", "be", "ne"):
        EXT["core:%s::from_%s_bytes" % (_t, _o)] = _from_bytes("le" if _o == "ne" else _o, _w, _s)
        CONTRACT["core:%s::from_%s_bytes" % (_t, _o)] = "total"
CONTRACT["core:Option<(T, U)>::unzip"] = "total"
CONTRACT["core::iter::traits::iterator::Iterator::zip"] = "total"


@ext("core::iter::traits::iterator::Iterator::collect", contract="pre")
def h_collect(I, st, callee, target, args, ctx):
    """`slice.iter().copied().collect()` into a byte vector.  alloc: the copy of the slice.
    heapless: `FromIterator` pushes with `expect("Vec::from_iter overflow")` - a panic, not an
    error, when the slice is longer than the capacity (pinned: heapless 0.7.17 src/vec.rs)."""
    it = args[0]
    if isinstance(it, VParser) and it.kind == "it_copied" and type(it.args[0]) is VIter:
        it = it.args[0]
    else:
        raise Unanalysable("collect of %r" % (args[0],))
    dest = ctx["term"]["dest"]
    ty = ctx["body"]["locals"][dest["l"]] if not dest["p"] else None
    t = I.rty(ty) if ty is not None else None
    if t is None or t["k"] != "adt":
        raise Unanalysable("collect into an unknown type")
    sl = it.slice
    start, n = sl.start + it.pos, sl.len - it.pos
    if t["def"] == "alloc::vec::Vec":
        return [(st, VSeq(("slice", sl.buf, start, n), None))]
    cap = vec_cap(I, t)
    if cap is not None and t["def"].startswith("heapless::vec::Vec"):
        over = decide_le0(st, -n + cap + 1, "heapless from_iter")   # cap < n
        panic_obligation(I, st, ctx, "heapless::Vec::from_iter overflow", not over,
                         None if not over else "collect() of %r bytes into a heapless vector of capacity %d panics" % (n, cap))
        if over:
            return []
        return [(st, VSeq(("slice", sl.buf, start, n), cap))]
    raise Unanalysable("collect into %s" % t.get("text", t["def"]))


@ext("heapless:Vec<T, N>::capacity")
def h_heapless_capacity(I, st, callee, target, args, ctx):
    v = deref(I, st, args[0])
    cap = getattr(v, "cap", None)
    if cap is None:
        raise Unanalysable("capacity of %r" % (v,))
    return [(st, mk_const(cap, 64, False))]


@ext("heapless:Vec<T, N>::is_full")
def h_heapless_is_full(I, st, callee, target, args, ctx):
    v = deref(I, st, args[0])
    cap = getattr(v, "cap", None)
    if cap is None or not isinstance(v, (VSeq, VList)):
        raise Unanalysable("is_full of %r" % (v,))
    n = I.seq_len(st, v.term) if isinstance(v, VSeq) else Lin.const(len(v.items))
    return [(st, VBool(("le0", -n + cap)))]


def _unsigned_abs(I, st, callee, target, args, ctx):
    """|x| of a signed integer as the unsigned type of the same width (cannot overflow)"""
    x = args[0]
    if not isinstance(x, VInt):
        raise Unanalysable("unsigned_abs of %r" % (x,))
    lx = lin_of(st, x)
    r = st.lin_range(lx)
    if r.min() >= 0:
        return [(st, VInt(x.w, False, lin=lx))]
    if r.max() <= 0:
        return [(st, VInt(x.w, False, lin=-lx))]
    sa = lx.single_atom()
    if sa and sa[1] == 1 and sa[2] == 0:
        cur = st.aset(sa[0])
        raise NeedSplit(sa[0], [cur.intersect(IntSet.range(-INF, -1)), cur.intersect(IntSet.range(0, INF))])
    raise Unanalysable("unsigned_abs of a value of unknown sign")


for _t in ("i8", "i16", "i32", "i64", "isize"):
    EXT["core:%s::unsigned_abs" % _t] = _unsigned_abs
    CONTRACT["core:%s::unsigned_abs" % _t] = "total"
