"""Abstract values of the MIR interpreter. All values are immutable."""
from __future__ import annotations
from .domains import IntSet, Lin, INF, fmt_atom


class Val:
    __slots__ = ()


class VInt(Val):
    """Integer (or char) of width w, signedness s.  Exactly one of lin / bv is set.

    lin : Lin over atoms — the exact mathematical value (always within the type's range)
    bv  : tuple of w cells, most significant first; a cell is 0, 1 or (atom, i) = bit i of a
          non-negative atom
    """
    __slots__ = ("w", "s", "lin", "bv")

    def __init__(self, w, s, lin=None, bv=None):
        self.w, self.s, self.lin, self.bv = w, s, lin, bv

    def __repr__(self):
        t = ("i" if self.s else "u") + str(self.w)
        if self.lin is not None:
            return "%r:%s" % (self.lin, t)
        return "bv%s:%s" % (fmt_cells(self.bv), t)

    def key(self):
        return ("int", self.w, self.s, self.lin.key() if self.lin is not None else ("bv", self.bv))


def fmt_cells(cells):
    out = []
    for c in cells:
        if c in (0, 1):
            out.append(str(c))
        elif isinstance(c, tuple) and len(c) == 2 and isinstance(c[1], int) and not isinstance(c[0], str):
            out.append("%s.%d" % (fmt_atom(c[0]), c[1]))
        else:
            out.append(repr(c))       # not / and / or / xor of cells
    # compress runs
    s = []
    i = 0
    while i < len(out):
        j = i
        while j + 1 < len(out) and out[j + 1] == out[i]:
            j += 1
        s.append(out[i] if j == i else "%s*%d" % (out[i], j - i + 1))
        i = j + 1
    return "[" + " ".join(s) + "]"


class VBool(Val):
    """cond: True | False | ('in', atom, IntSet) | ('le0', Lin) | ('not', c) | ('and', a, b) |
    ('or', a, b) | ('opq', tag)"""
    __slots__ = ("cond",)

    def __init__(self, cond):
        self.cond = cond

    def __repr__(self):
        return "bool(%r)" % (self.cond,)

    def key(self):
        return ("bool", cond_key(self.cond))


def cond_key(c):
    if c is True or c is False:
        return c
    if c[0] == "in":
        return ("in", c[1], c[2].iv)
    if c[0] == "le0":
        return ("le0", c[1].key())
    if c[0] == "not":
        return ("not", cond_key(c[1]))
    if c[0] in ("and", "or"):
        return (c[0], cond_key(c[1]), cond_key(c[2]))
    return c


class VFloat(Val):
    """term: ('fconst', text) | ('i2f', intval_key_term) | ('fdiv', t, t) | ('fmul', t, t) | ..."""
    __slots__ = ("term",)

    def __init__(self, term):
        self.term = term

    def __repr__(self):
        return "f32(%r)" % (self.term,)

    def key(self):
        return ("float", self.term)


class VUnit(Val):
    __slots__ = ()

    def __repr__(self):
        return "()"

    def key(self):
        return ("unit",)


UNIT = VUnit()


class VTuple(Val):
    __slots__ = ("items",)

    def __init__(self, items):
        self.items = tuple(items)

    def __repr__(self):
        return "(" + ", ".join(map(repr, self.items)) + ")"

    def key(self):
        return ("tuple",) + tuple(valkey(x) for x in self.items)


class VAdt(Val):
    """struct / enum value.  variant: int (known).  fields: tuple of Val for that variant."""
    __slots__ = ("adt", "variant", "fields")

    def __init__(self, adt, variant, fields):
        self.adt, self.variant, self.fields = adt, variant, tuple(fields)

    def __repr__(self):
        return "%s#%s{%s}" % (self.adt.split("::")[-1], self.variant, ", ".join(map(repr, self.fields)))

    def key(self):
        return ("adt", self.adt, self.variant) + tuple(valkey(x) for x in self.fields)


class VSymEnum(Val):
    """enum with symbolic discriminant: disc is an atom; per-variant field tuples"""
    __slots__ = ("adt", "disc", "by_variant")

    def __init__(self, adt, disc, by_variant):
        self.adt, self.disc, self.by_variant = adt, disc, by_variant  # dict variant-> tuple fields

    def __repr__(self):
        return "%s?<%s>" % (self.adt.split("::")[-1], fmt_atom(self.disc))

    def key(self):
        return ("symenum", self.adt, self.disc, tuple(sorted((k, tuple(valkey(x) for x in v)) for k, v in self.by_variant.items())))


class VRef(Val):
    __slots__ = ("cell", "path", "mut")

    def __init__(self, cell, path=(), mut=False):
        self.cell, self.path, self.mut = cell, tuple(path), mut

    def __repr__(self):
        return "&%s#%d%s" % ("mut " if self.mut else "", self.cell, "".join("." + str(p) for p in self.path))

    def key(self):
        return ("ref", self.cell, self.path)


class VBox(Val):
    """shared reference to a constant aggregate (promoted `&Some(1)`)"""
    __slots__ = ("inner",)

    def __init__(self, inner):
        self.inner = inner

    def __repr__(self):
        return "&const %r" % (self.inner,)

    def key(self):
        return ("box", valkey(self.inner))


class VSlice(Val):
    """&[u8] fat pointer into buffer `buf` (a hashable term): bytes [start, start+len)."""
    __slots__ = ("buf", "start", "len")

    def __init__(self, buf, start, length):
        self.buf, self.start, self.len = buf, start, length

    def __repr__(self):
        return "&%s[%r ; %r]" % (fmt_atom(self.buf) if isinstance(self.buf, tuple) else self.buf, self.start, self.len)

    def key(self):
        return ("slice", self.buf, self.start.key(), self.len.key())


class VStr(Val):
    """&str / String / heapless::String : a text term"""
    __slots__ = ("term", "owned")

    def __init__(self, term, owned=False):
        self.term, self.owned = term, owned

    def __repr__(self):
        return "str(%r)" % (self.term,)

    def key(self):
        return ("str", self.term, self.owned)


class VSeq(Val):
    """Vec<u8>-like byte sequence: term in
    ('empty',) | ('slice', buf, startkey, lenkey) | ('concat', a, b) | ('sym', name) | ('zeros', lenkey, writes)"""
    __slots__ = ("term", "cap")

    def __init__(self, term, cap=None):
        self.term, self.cap = term, cap

    def __repr__(self):
        return "seq(%r)" % (self.term,)

    def key(self):
        return ("seq", self.term, self.cap)


class VList(Val):
    """Vec<T>-like list of abstract elements with statically known length"""
    __slots__ = ("items", "cap")

    def __init__(self, items, cap=None):
        self.items, self.cap = tuple(items), cap

    def __repr__(self):
        return "list[%s]" % ", ".join(map(repr, self.items))

    def key(self):
        return ("list", self.cap) + tuple(valkey(x) for x in self.items)


class VFn(Val):
    """fn item (zero-sized): callee record from the facts"""
    __slots__ = ("callee",)

    def __init__(self, callee):
        self.callee = callee

    def __repr__(self):
        return "fn<%s>" % self.callee["def"]

    def key(self):
        return ("fn", self.callee["def"])


class VClosure(Val):
    __slots__ = ("defn", "upvars", "genv")

    def __init__(self, defn, upvars, genv=None):
        self.defn, self.upvars, self.genv = defn, tuple(upvars), genv

    def __repr__(self):
        return "closure<%s>" % self.defn

    def key(self):
        return ("closure", self.defn) + tuple(valkey(x) for x in self.upvars)


class VParser(Val):
    """value of an external (nom) combinator constructor: kind + arguments"""
    __slots__ = ("kind", "args", "info")

    def __init__(self, kind, args, info=None):
        self.kind, self.args, self.info = kind, tuple(args), info

    def __repr__(self):
        return "P.%s(%s)" % (self.kind, ", ".join(map(repr, self.args)))

    def key(self):
        return ("parser", self.kind) + tuple(valkey(x) if isinstance(x, Val) else x for x in self.args)


class VIter(Val):
    """slice iterator state: buffer slice + position counter"""
    __slots__ = ("slice", "pos")

    def __init__(self, sl, pos):
        self.slice, self.pos = sl, pos

    def __repr__(self):
        return "iter(%r @%r)" % (self.slice, self.pos)

    def key(self):
        return ("iter", valkey(self.slice), self.pos.key() if hasattr(self.pos, "key") else self.pos)

    def at(self, pos):
        return type(self)(self.slice, pos)

    def item(self, k, ref):
        """the item yielded at position k (a Lin) given the reference to the element"""
        return ref


class VElems(Val):
    """n consecutive k-bit groups of buf starting at bit pos, each mapped through `elem`
    (a value mentioning the generic element atom ('bits', buf, ('elem', pos, k), k))"""
    __slots__ = ("buf", "pos", "k", "n", "elem", "cap")

    def __init__(self, buf, pos, k, n, elem, cap=None):
        self.buf, self.pos, self.k, self.n, self.elem, self.cap = buf, pos, k, n, elem, cap

    def __repr__(self):
        return "elems(%s@%s, %dx%r -> %r)" % (self.buf, self.pos, self.k, self.n, self.elem)

    def key(self):
        return ("elems", self.buf, self.pos, self.k, self.n.key(), valkey(self.elem), self.cap)


class VIterEnum(VIter):
    """slice.iter().enumerate(): items are (index, &element)"""
    __slots__ = ()

    def __repr__(self):
        return "enumerate(%r @%r)" % (self.slice, self.pos)

    def key(self):
        return ("iterenum",) + VIter.key(self)[1:]

    def item(self, k, ref):
        return VTuple((VInt(64, False, lin=k), ref))


class VIterZipLin(VIter):
    """slice.iter().zip(<arithmetic progression start, start+step, ...>): items are
    (&element, start + step*k); the progression is unbounded (a RangeFrom, possibly stepped), so
    the zip ends exactly when the slice does"""
    __slots__ = ("start", "step", "w", "s", "first")

    def __init__(self, sl, pos, start, step, w, s, first):
        VIter.__init__(self, sl, pos)
        self.start, self.step, self.w, self.s, self.first = start, step, w, s, first

    def __repr__(self):
        return "zip(%r @%r, %r+%d*k)" % (self.slice, self.pos, self.start, self.step)

    def key(self):
        return ("iterzip",) + VIter.key(self)[1:] + (self.start.key(), self.step, self.w, self.s, self.first)

    def at(self, pos):
        return VIterZipLin(self.slice, pos, self.start, self.step, self.w, self.s, self.first)

    def item(self, k, ref):
        n = VInt(self.w, self.s, lin=self.start + k.scale(self.step))
        return VTuple((ref, n) if self.first else (n, ref))


class VOpaque(Val):
    """unknown value (top) with a tag saying where it came from"""
    __slots__ = ("tag", "ty")

    def __init__(self, tag, ty=None):
        self.tag, self.ty = tag, ty

    def __repr__(self):
        return "?<%s>" % (self.tag,)

    def key(self):
        return ("opaque", self.tag)


class VUninit(Val):
    __slots__ = ()

    def __repr__(self):
        return "uninit"

    def key(self):
        return ("uninit",)


UNINIT = VUninit()


def valkey(v):
    if isinstance(v, Val):
        return v.key()
    return v


def nocap(k):
    """a raw value key without capacity annotations (Vec and heapless::Vec contents compare equal)"""
    if isinstance(k, tuple) and k:
        if k[0] == "list" and len(k) >= 2 and (k[1] is None or isinstance(k[1], int)):
            return ("list", None) + tuple(nocap(x) for x in k[2:])
        if k[0] == "elems" and len(k) == 7:
            return tuple(nocap(x) for x in k[:6]) + (None,)
        if k[0] == "seq" and len(k) == 3:
            return ("seq", nocap(k[1]), None)
        return tuple(nocap(x) for x in k)
    return k
