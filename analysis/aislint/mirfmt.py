"""Pretty printer for the aisfacts JSON (debugging aid only)."""
import json, sys

def fplace(p):
    s = "_%d" % p["l"]
    for e in p["p"]:
        if e == "deref": s = "(*%s)" % s
        elif isinstance(e, dict) and "f" in e: s = "%s.%d" % (s, e["f"])
        elif isinstance(e, dict) and "dc" in e: s = "(%s as %s)" % (s, e.get("name") or e["dc"])
        elif isinstance(e, dict) and "idx" in e: s = "%s[_%d]" % (s, e["idx"])
        elif isinstance(e, dict) and "cidx" in e: s = "%s[%s%d of %d]" % (s, "-" if e["from_end"] else "", e["cidx"], e["min"])
        elif isinstance(e, dict) and "sub_from" in e: s = "%s[%d..%s%d]" % (s, e["sub_from"], "-" if e["from_end"] else "", e["sub_to"])
        else: s = "%s.<%s>" % (s, e)
    return s

def fconst(c, types):
    t = types[c["ty"]]["text"]
    if "int" in c: return "const %s_%s" % (c["int"], t)
    if "float" in c: return "const %s_%s" % (c["float"], t)
    if "bytes" in c: return "const %r" % bytes(c["bytes"])
    if "fn" in c: return "fn<%s>" % c["fn"]["name"]
    if "zst" in c: return "const ZST:%s" % t
    return "const ?%s:%s" % (c.get("opaque") or c.get("uneval") or c.get("bits"), t)

def fop(o, types):
    if "copy" in o: return fplace(o["copy"])
    if "move" in o: return "move " + fplace(o["move"])
    if "const" in o: return fconst(o["const"], types)
    return str(o)

def frv(r, types):
    if "use" in r: return fop(r["use"], types)
    if "ref" in r: return ("&mut " if r["mut"] else "&") + fplace(r["ref"])
    if "rawptr" in r: return "&raw " + fplace(r["rawptr"])
    if "cast" in r: return "%s as %s (%s)" % (fop(r["x"], types), types[r["ty"]]["text"], r["cast"])
    if "bin" in r: return "%s(%s, %s)" % (r["bin"], fop(r["l"], types), fop(r["r"], types))
    if "un" in r: return "%s(%s)" % (r["un"], fop(r["x"], types))
    if "disc" in r: return "discriminant(%s)" % fplace(r["disc"])
    if "agg" in r:
        k = r["agg"]
        ops = ", ".join(fop(o, types) for o in r["ops"])
        if k == "tuple": return "(%s)" % ops
        if "adt" in k: return "%s::%s{%s}" % (k["name"], k["vname"], ", ".join("%s: %s" % (n, fop(o, types)) for n, o in zip(k["fields"], r["ops"])))
        if "closure" in k: return "closure<%s>[%s]" % (k["closure"], ops)
        return "%s[%s]" % (k, ops)
    if "repeat" in r: return "[%s; %s]" % (fop(r["repeat"], types), r["n"])
    return str(r)

def fcallee(c):
    if "indirect" in c: return "indirect"
    s = c["name"]
    r = c.get("resolved")
    if r and r["def"] != c["def"]: s += " => " + r["name"] + "[" + r["kind"] + "]"
    return s

def fbody(b, types, out=sys.stdout):
    w = out.write
    w("fn %s  [%s] %s args=%d\n" % (b["def"], b["kind"], b["loc"], b["arg_count"]))
    for i, t in enumerate(b["locals"]):
        w("    let _%d: %s\n" % (i, types[t]["text"]))
    for n in b["names"]:
        w("    debug %s => %s\n" % (n["name"], fplace(n["place"])))
    for i, blk in enumerate(b["blocks"]):
        w("  bb%d%s:\n" % (i, " (cleanup)" if blk["cleanup"] else ""))
        for s in blk["stmts"]:
            if "assign" in s: w("    %s = %s\n" % (fplace(s["assign"]), frv(s["rv"], types)))
            else: w("    %s\n" % s)
        t = blk["term"]
        if "goto" in t: w("    goto bb%d\n" % t["goto"])
        elif "switch" in t: w("    switchInt(%s) [%s, otherwise: bb%d]\n" % (fop(t["switch"], types), ", ".join("%d: bb%d" % (v, bb) for v, bb in t["targets"]), t["otherwise"]))
        elif "return" in t: w("    return\n")
        elif "unreachable" in t: w("    unreachable\n")
        elif "drop" in t: w("    drop(%s) -> bb%d\n" % (fplace(t["drop"]), t["target"]))
        elif "call" in t:
            w("    %s = %s(%s) -> %s   @%s %s\n" % (fplace(t["dest"]), fcallee(t["call"]), ", ".join(fop(a, types) for a in t["args"]), "bb%d" % t["target"] if t["target"] is not None else "!", t["loc"].split("/")[-1], ",".join(t["macros"])))
        elif "assert" in t: w("    assert(%s == %s, %s) -> bb%d   @%s\n" % (fop(t["assert"], types), t["expected"], t["kind"], t["target"], t["loc"].split("/")[-1]))
        else: w("    %s\n" % t)

if __name__ == "__main__":
    d = json.load(open(sys.argv[1]))
    pat = sys.argv[2] if len(sys.argv) > 2 else ""
    for b in d["bodies"]:
        if pat in b["def"] and (len(sys.argv) < 4 or b["def"].endswith(sys.argv[3])):
            fbody(b, d["types"])
