"""Small NFA/DFA library over the byte alphabet (used for C08: accepted sentence language)."""
from __future__ import annotations

ALL = frozenset(range(256))
DIGITS = frozenset(range(48, 58))
HEX = frozenset(list(range(48, 58)) + list(range(65, 71)) + list(range(97, 103)))


class NFA:
    """epsilon-NFA with byte-set labelled edges; states are ints"""

    def __init__(self):
        self.n = 0
        self.eps = {}      # state -> set(state)
        self.edges = {}    # state -> list[(frozenset bytes, state)]

    def new(self):
        s = self.n
        self.n += 1
        return s

    def add_eps(self, a, b):
        self.eps.setdefault(a, set()).add(b)

    def add(self, a, bytes_, b):
        self.edges.setdefault(a, []).append((frozenset(bytes_), b))


class Frag:
    """NFA fragment builders: each returns (start, end)"""

    def __init__(self, nfa):
        self.a = nfa

    def lit(self, bs):
        s = self.a.new()
        cur = s
        for b in bs:
            nx = self.a.new()
            self.a.add(cur, {b}, nx)
            cur = nx
        return s, cur

    def cls(self, byteset):
        s, e = self.a.new(), self.a.new()
        self.a.add(s, byteset, e)
        return s, e

    def seq(self, *frs):
        frs = [f for f in frs if f is not None]
        if not frs:
            s = self.a.new()
            return s, s
        for (x, y) in zip(frs, frs[1:]):
            self.a.add_eps(x[1], y[0])
        return frs[0][0], frs[-1][1]

    def alt(self, *frs):
        s, e = self.a.new(), self.a.new()
        for f in frs:
            self.a.add_eps(s, f[0])
            self.a.add_eps(f[1], e)
        return s, e

    def opt(self, f):
        s, e = self.a.new(), self.a.new()
        self.a.add_eps(s, f[0])
        self.a.add_eps(f[1], e)
        self.a.add_eps(s, e)
        return s, e

    def star(self, byteset):
        s = self.a.new()
        self.a.add(s, byteset, s)
        return s, s

    def repeat(self, byteset, lo, hi):
        """byteset{lo,hi}; hi None = unbounded"""
        s = self.a.new()
        cur = s
        for _ in range(lo):
            nx = self.a.new()
            self.a.add(cur, byteset, nx)
            cur = nx
        if hi is None:
            self.a.add(cur, byteset, cur)
            return s, cur
        e = self.a.new()
        self.a.add_eps(cur, e)
        for _ in range(hi - lo):
            nx = self.a.new()
            self.a.add(cur, byteset, nx)
            self.a.add_eps(nx, e)
            cur = nx
        return s, e

    def empty(self):
        s = self.a.new()
        return s, s

    def dec_value_in(self, values):
        """decimal digit strings (leading zeros allowed, at least one digit) whose value is in `values`"""
        values = set(values)
        frs = []
        for v in sorted(values):
            frs.append(self.lit(str(v).encode()))
        if not frs:
            s, e = self.a.new(), self.a.new()      # empty language
            return s, e
        return self.seq(self.star({48}), self.alt(*frs))

    def hex_run_value_in(self, values, maxdigits, followed_by_anything=True):
        """maximal run of hex digits; the value of its first min(len, maxdigits) digits is in values.
        The fragment's end state is reached (a) at end of the run when followed by a non-hex byte,
        consumed into the 'anything' tail, or at end of input.  To express maximal munch the tail
        Σ* is built into the fragment: the returned end state is absorbing-accepting."""
        values = set(values)
        big = max(values) if values else -1
        acc = self.a.new()
        self.a.add(acc, ALL, acc)
        start = self.a.new()
        states = {}

        def st(cnt, val):
            key = (cnt, val)
            if key not in states:
                states[key] = self.a.new()
            return states[key]
        work = []
        for b in HEX:
            d = int(chr(b), 16)
            v = d if d <= big else None
            self.a.add(start, {b}, st(1, v))
            work.append((1, v))
        seen = set()
        nonhex = ALL - HEX
        while work:
            cnt, val = work.pop()
            if (cnt, val) in seen:
                continue
            seen.add((cnt, val))
            s = st(cnt, val)
            ok = val is not None and val in values
            if cnt == maxdigits:
                if ok:
                    self.a.add_eps(s, acc)
                continue
            if ok:
                self.a.add(s, nonhex, acc)
                # end of input right after the run: mark through an epsilon to a final-only state
                self.a.add_eps(s, self._final_only())
            for b in HEX:
                d = int(chr(b), 16)
                nv = None if val is None else val * 16 + d
                if nv is not None and nv > big:
                    nv = None
                self.a.add(s, {b}, st(cnt + 1, nv))
                work.append((cnt + 1, nv))
        return start, acc

    def _final_only(self):
        if not hasattr(self, "_fo"):
            self._fo = self.a.new()
            self.a.extra_finals = getattr(self.a, "extra_finals", set()) | {self._fo}
        return self._fo


def byte_classes(*nfas):
    """coarsest partition of 0..255 such that every edge label is a union of classes"""
    labels = set()
    for a in nfas:
        for es in a.edges.values():
            for (bs, _) in es:
                labels.add(bs)
    sig = {}
    for b in range(256):
        sig.setdefault(tuple(b in l for l in labels), []).append(b)
    return [frozenset(v) for v in sig.values()]


class DFA:
    def __init__(self, nfa, start, finals, classes):
        self.classes = classes
        rep = [min(c) for c in classes]
        finals = set(finals) | getattr(nfa, "extra_finals", set())

        def closure(ss):
            stack = list(ss)
            out = set(ss)
            while stack:
                s = stack.pop()
                for t in nfa.eps.get(s, ()):
                    if t not in out:
                        out.add(t)
                        stack.append(t)
            return frozenset(out)
        s0 = closure({start})
        self.states = {s0: 0}
        self.trans = []
        self.final = []
        order = [s0]
        i = 0
        while i < len(order):
            cur = order[i]
            i += 1
            row = []
            for r in rep:
                nxt = set()
                for s in cur:
                    for (bs, t) in nfa.edges.get(s, ()):
                        if r in bs:
                            nxt.add(t)
                nx = closure(nxt)
                if nx not in self.states:
                    self.states[nx] = len(order)
                    order.append(nx)
                row.append(self.states[nx])
            self.trans.append(row)
            self.final.append(bool(cur & finals))
        self.n = len(order)


def difference_witness(d1, d2):
    """shortest byte string accepted by exactly one of the DFAs (same classes), or None"""
    assert d1.classes == d2.classes
    rep = [min(c) for c in d1.classes]
    start = (0, 0)
    prev = {start: None}
    queue = [start]
    qi = 0
    while qi < len(queue):
        a, b = queue[qi]
        qi += 1
        if d1.final[a] != d2.final[b]:
            out = []
            cur = (a, b)
            while prev[cur] is not None:
                p, ci = prev[cur]
                out.append(rep[ci])
                cur = p
            return bytes(reversed(out)), d1.final[a]
        for ci in range(len(rep)):
            nx = (d1.trans[a][ci], d2.trans[b][ci])
            if nx not in prev:
                prev[nx] = ((a, b), ci)
                queue.append(nx)
    return None
