"""Abstract domains: IntSet (finite unions of integer intervals) and Lin (linear forms over atoms).

Everything here is pure mathematics over Z; machine types are applied by the interpreter.
"""
from __future__ import annotations

INF = float("inf")


class IntSet:
    """Finite union of disjoint closed integer intervals; bounds may be -INF / INF."""

    __slots__ = ("iv",)

    def __init__(self, iv=()):
        # normalise
        xs = sorted((lo, hi) for lo, hi in iv if lo <= hi)
        out = []
        for lo, hi in xs:
            if out and lo <= out[-1][1] + 1:
                if hi > out[-1][1]:
                    out[-1] = (out[-1][0], hi)
            else:
                out.append((lo, hi))
        self.iv = tuple(out)

    # constructors
    @staticmethod
    def range(lo, hi):
        return IntSet(((lo, hi),))

    @staticmethod
    def of(*vals):
        return IntSet(tuple((v, v) for v in vals))

    @staticmethod
    def empty():
        return IntSet(())

    @staticmethod
    def top():
        return IntSet(((-INF, INF),))

    def is_empty(self):
        return not self.iv

    def __bool__(self):
        return bool(self.iv)

    def __eq__(self, o):
        return isinstance(o, IntSet) and self.iv == o.iv

    def __hash__(self):
        return hash(self.iv)

    def __repr__(self):
        if not self.iv:
            return "{}"
        return "{" + ",".join(("%s" % lo if lo == hi else "%s..%s" % (lo, hi)) for lo, hi in self.iv) + "}"

    def min(self):
        return self.iv[0][0]

    def max(self):
        return self.iv[-1][1]

    def contains(self, v):
        return any(lo <= v <= hi for lo, hi in self.iv)

    def is_single(self):
        return len(self.iv) == 1 and self.iv[0][0] == self.iv[0][1]

    def single(self):
        return self.iv[0][0]

    def size(self):
        n = 0
        for lo, hi in self.iv:
            if lo == -INF or hi == INF:
                return INF
            n += hi - lo + 1
        return n

    def values(self):
        for lo, hi in self.iv:
            assert lo != -INF and hi != INF
            for v in range(lo, hi + 1):
                yield v

    def intersect(self, o):
        out = []
        for a, b in self.iv:
            for c, d in o.iv:
                lo, hi = max(a, c), min(b, d)
                if lo <= hi:
                    out.append((lo, hi))
        return IntSet(out)

    def union(self, o):
        return IntSet(self.iv + o.iv)

    def complement(self, universe=None):
        out = []
        cur = -INF
        for lo, hi in self.iv:
            if lo > cur:
                out.append((cur, lo - 1))
            cur = hi + 1
        if cur <= INF:
            out.append((cur, INF))
        r = IntSet([(lo, hi) for lo, hi in out if lo <= hi])
        return r.intersect(universe) if universe is not None else r

    def minus(self, o):
        return self.intersect(o.complement())

    def subset_of(self, o):
        return self.minus(o).is_empty()

    def shift(self, c):
        return IntSet([(lo + c, hi + c) for lo, hi in self.iv])

    def scale(self, k):
        """{k*x} hull per interval (exact only for |k| = 1; otherwise an over-approximation)."""
        if k == 0:
            return IntSet.of(0)
        if k > 0:
            return IntSet([(lo * k, hi * k) for lo, hi in self.iv])
        return IntSet([(hi * k, lo * k) for lo, hi in self.iv])

    def hull(self):
        if not self.iv:
            return None
        return (self.iv[0][0], self.iv[-1][1])


def ceil_div(a, b):
    return -((-a) // b)


# ------------------------------------------------------------------------------------------------
# Lin: c0 + sum k_i * atom_i, atoms are hashable terms.  Immutable.

class Lin:
    __slots__ = ("terms", "c", "_h")

    def __init__(self, terms=(), c=0):
        if isinstance(terms, dict):
            terms = terms.items()
        t = {}
        for a, k in terms:
            if k:
                t[a] = t.get(a, 0) + k
        self.terms = tuple(sorted(((a, k) for a, k in t.items() if k), key=lambda x: repr(x[0])))
        self.c = c
        self._h = None

    @staticmethod
    def const(c):
        return Lin((), c)

    @staticmethod
    def atom(a, k=1):
        return Lin(((a, k),), 0)

    def is_const(self):
        return not self.terms

    def atoms(self):
        return [a for a, _ in self.terms]

    def single_atom(self):
        """(atom, k, c) if exactly one atom"""
        if len(self.terms) == 1:
            return self.terms[0][0], self.terms[0][1], self.c
        return None

    def __add__(self, o):
        if isinstance(o, int):
            return Lin(self.terms, self.c + o)
        return Lin(self.terms + o.terms, self.c + o.c)

    def __sub__(self, o):
        if isinstance(o, int):
            return Lin(self.terms, self.c - o)
        return Lin(self.terms + tuple((a, -k) for a, k in o.terms), self.c - o.c)

    def __neg__(self):
        return Lin(tuple((a, -k) for a, k in self.terms), -self.c)

    def scale(self, k):
        return Lin(tuple((a, kk * k) for a, kk in self.terms), self.c * k)

    def __eq__(self, o):
        return isinstance(o, Lin) and self.terms == o.terms and self.c == o.c

    def __hash__(self):
        if self._h is None:
            self._h = hash((self.terms, self.c))
        return self._h

    def key(self):
        return ("lin", self.terms, self.c)

    def __repr__(self):
        if not self.terms:
            return str(self.c)
        parts = []
        for a, k in self.terms:
            s = fmt_atom(a)
            parts.append(s if k == 1 else "%d*%s" % (k, s))
        if self.c:
            parts.append(str(self.c))
        return "+".join(parts).replace("+-", "-")


def fmt_atom(a):
    if isinstance(a, tuple) and not a:
        return "()"
    if isinstance(a, tuple):
        if a[0] == "bits":
            return "%s[%s+:%s]" % (a[1], a[2], a[3])
        if a[0] == "sym":
            return a[1]
        if a[0] == "len":
            return "len(%s)" % (a[1],)
        if a[0] == "fdiv":
            return "(%r)//%d" % (a[1], a[2])
        if a[0] == "mod":
            return "(%r)%%%d" % (a[1], a[2])
        if isinstance(a[0], str):
            return a[0] + "(" + ",".join(fmt_atom(x) for x in a[1:]) + ")"
        return "(" + ",".join(fmt_atom(x) for x in a) + ")"
    return repr(a)
