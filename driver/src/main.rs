//! aisfacts — a thin rustc_private driver that serialises the resolved, type-checked MIR of the
//! local crate as JSON. It performs no analysis: every decision is taken by /verif/analysis.
//!
//! Usage: injected with RUSTC_WORKSPACE_WRAPPER under `cargo +nightly check`; writes
//! `$AISFACTS_OUT/<crate_name>.json` (one write per process).
#![feature(rustc_private)]

extern crate rustc_abi;
extern crate rustc_driver;
extern crate rustc_hir;
extern crate rustc_interface;
extern crate rustc_middle;
extern crate rustc_span;

use rustc_driver::Compilation;
use rustc_hir::def::DefKind;
use rustc_hir::def_id::{DefId, LOCAL_CRATE};
use rustc_interface::interface::Compiler;
use rustc_middle::mir::{
    self, AggregateKind, BorrowKind, ConstValue, Operand, Place,
    ProjectionElem, Rvalue, StatementKind, TerminatorKind,
};
use rustc_middle::ty::{self, GenericArgKind, Instance, Ty, TyCtxt, TypingEnv};
use rustc_span::Span;
use std::collections::HashMap;
use std::fmt::Write as _;

// ------------------------------------------------------------------------------------------------
// minimal JSON value

#[derive(Clone)]
enum J {
    Null,
    B(bool),
    I(i128),
    U(u128),
    S(String),
    A(Vec<J>),
    O(Vec<(String, J)>),
}

fn js(s: impl Into<String>) -> J {
    J::S(s.into())
}

macro_rules! obj {
    ($($k:expr => $v:expr),* $(,)?) => { J::O(vec![$(($k.to_string(), $v)),*]) };
}

impl J {
    fn write(&self, out: &mut String) {
        match self {
            J::Null => out.push_str("null"),
            J::B(b) => out.push_str(if *b { "true" } else { "false" }),
            J::I(i) => {
                let _ = write!(out, "{}", i);
            }
            J::U(u) => {
                let _ = write!(out, "{}", u);
            }
            J::S(s) => {
                out.push('"');
                for c in s.chars() {
                    match c {
                        '"' => out.push_str("\\\""),
                        '\\' => out.push_str("\\\\"),
                        '\n' => out.push_str("\\n"),
                        '\r' => out.push_str("\\r"),
                        '\t' => out.push_str("\\t"),
                        c if (c as u32) < 0x20 => {
                            let _ = write!(out, "\\u{:04x}", c as u32);
                        }
                        c => out.push(c),
                    }
                }
                out.push('"');
            }
            J::A(v) => {
                out.push('[');
                for (i, x) in v.iter().enumerate() {
                    if i > 0 {
                        out.push(',');
                    }
                    x.write(out);
                }
                out.push(']');
            }
            J::O(v) => {
                out.push('{');
                for (i, (k, x)) in v.iter().enumerate() {
                    if i > 0 {
                        out.push(',');
                    }
                    J::S(k.clone()).write(out);
                    out.push(':');
                    x.write(out);
                }
                out.push('}');
            }
        }
    }
}

// ------------------------------------------------------------------------------------------------

struct Dump<'tcx> {
    tcx: TyCtxt<'tcx>,
    types: Vec<J>,
    type_ix: HashMap<Ty<'tcx>, usize>,
    adts: Vec<(String, J)>,
    adt_seen: HashMap<DefId, ()>,
}

impl<'tcx> Dump<'tcx> {
    fn def_key(&self, d: DefId) -> String {
        // unique, crate-qualified, no generic arguments
        let krate = self.tcx.crate_name(d.krate);
        format!("{}{}", krate, self.tcx.def_path(d).to_string_no_crate_verbose())
    }

    fn def_name(&self, d: DefId) -> String {
        // readable path; crate-qualified for external items
        let s = self.tcx.def_path_str(d);
        if d.is_local() {
            format!("{}::{}", self.tcx.crate_name(LOCAL_CRATE), s)
        } else {
            s
        }
    }

    fn loc(&self, sp: Span) -> J {
        let sp = sp.source_callsite();
        let sm = self.tcx.sess.source_map();
        let lo = sm.lookup_char_pos(sp.lo());
        let name = format!("{}", lo.file.name.prefer_local_unconditionally());
        js(format!("{}:{}:{}", name, lo.line, lo.col.0 + 1))
    }

    fn macros(&self, sp: Span) -> J {
        // names of the macro expansions this span sits in, innermost first
        let mut v = Vec::new();
        let mut s = sp;
        let mut guard = 0;
        while s.from_expansion() && guard < 16 {
            let ed = s.ctxt().outer_expn_data();
            if let rustc_span::ExpnKind::Macro(_, name) = ed.kind {
                v.push(js(name.to_string()));
            } else {
                v.push(js(format!("{:?}", ed.kind)));
            }
            s = ed.call_site;
            guard += 1;
        }
        J::A(v)
    }

    fn generic_args(&mut self, args: ty::GenericArgsRef<'tcx>, env: TypingEnv<'tcx>) -> J {
        let mut v = Vec::new();
        for a in args.iter() {
            match a.kind() {
                GenericArgKind::Type(t) => v.push(obj! {"ty" => J::U(self.ty(t, env) as u128)}),
                GenericArgKind::Const(c) => v.push(obj! {"const" => self.ty_const(c, env)}),
                GenericArgKind::Lifetime(_) => {}
            }
        }
        J::A(v)
    }

    fn ty_const(&mut self, c: ty::Const<'tcx>, env: TypingEnv<'tcx>) -> J {
        if let Some(leaf) = c.try_to_leaf() {
            let sz = leaf.size();
            return J::U(leaf.to_bits(sz));
        }
        if let ty::ConstKind::Param(p) = c.kind() {
            return js(p.name.to_string());
        }
        // unevaluated (e.g. a named constant used as a capacity): normalise, then look again
        let tcx = self.tcx;
        let n = std::panic::catch_unwind(std::panic::AssertUnwindSafe(|| {
            tcx.try_normalize_erasing_regions(env, rustc_middle::ty::Unnormalized::new_wip(c))
        }));
        if let Ok(Ok(c2)) = n {
            if let Some(leaf) = c2.try_to_leaf() {
                let sz = leaf.size();
                return J::U(leaf.to_bits(sz));
            }
        }
        js(format!("{:?}", c))
    }

    fn ty(&mut self, t: Ty<'tcx>, env: TypingEnv<'tcx>) -> usize {
        if let Some(&i) = self.type_ix.get(&t) {
            return i;
        }
        let i = self.types.len();
        self.types.push(J::Null);
        self.type_ix.insert(t, i);
        let text = format!("{}", t);
        let j = match t.kind() {
            ty::Bool => obj! {"k" => js("bool")},
            ty::Char => obj! {"k" => js("char")},
            ty::Int(it) => {
                let w = it.bit_width().unwrap_or(64);
                obj! {"k" => js("int"), "w" => J::U(w as u128), "s" => J::B(true), "ptr" => J::B(it.bit_width().is_none())}
            }
            ty::Uint(ut) => {
                let w = ut.bit_width().unwrap_or(64);
                obj! {"k" => js("int"), "w" => J::U(w as u128), "s" => J::B(false), "ptr" => J::B(ut.bit_width().is_none())}
            }
            ty::Float(ft) => obj! {"k" => js("float"), "w" => J::U(ft.bit_width() as u128)},
            ty::Str => obj! {"k" => js("str")},
            ty::Never => obj! {"k" => js("never")},
            ty::Ref(_, inner, m) => {
                let x = self.ty(*inner, env);
                obj! {"k" => js("ref"), "mut" => J::B(m.is_mut()), "ty" => J::U(x as u128)}
            }
            ty::RawPtr(inner, m) => {
                let x = self.ty(*inner, env);
                obj! {"k" => js("rawptr"), "mut" => J::B(m.is_mut()), "ty" => J::U(x as u128)}
            }
            ty::Slice(inner) => {
                let x = self.ty(*inner, env);
                obj! {"k" => js("slice"), "ty" => J::U(x as u128)}
            }
            ty::Array(inner, len) => {
                let x = self.ty(*inner, env);
                let l = self.ty_const(*len, env);
                obj! {"k" => js("array"), "ty" => J::U(x as u128), "len" => l}
            }
            ty::Tuple(ts) => {
                let v: Vec<J> = ts.iter().map(|x| J::U(self.ty(x, env) as u128)).collect();
                obj! {"k" => js("tuple"), "tys" => J::A(v)}
            }
            ty::Adt(def, args) => {
                let did = def.did();
                self.adt(did);
                let a = self.generic_args(args, env);
                obj! {"k" => js("adt"), "def" => js(self.def_key(did)), "name" => js(self.def_name(did)), "args" => a}
            }
            ty::Closure(did, args) => {
                let up: Vec<J> = args
                    .as_closure()
                    .upvar_tys()
                    .iter()
                    .map(|x| J::U(self.ty(x, env) as u128))
                    .collect();
                obj! {"k" => js("closure"), "def" => js(self.def_key(*did)), "upvars" => J::A(up)}
            }
            ty::FnDef(did, args) => {
                let a = self.generic_args(args, env);
                obj! {"k" => js("fndef"), "def" => js(self.def_key(*did)), "name" => js(self.def_name(*did)), "args" => a}
            }
            ty::FnPtr(..) => obj! {"k" => js("fnptr")},
            ty::Param(p) => obj! {"k" => js("param"), "name" => js(p.name.to_string())},
            ty::Alias(..) => obj! {"k" => js("alias")},
            ty::Dynamic(..) => obj! {"k" => js("dyn")},
            _ => obj! {"k" => js("other")},
        };
        let j = match j {
            J::O(mut v) => {
                v.push(("text".to_string(), js(text)));
                J::O(v)
            }
            x => x,
        };
        self.types[i] = j;
        i
    }

    fn adt(&mut self, did: DefId) {
        if self.adt_seen.contains_key(&did) {
            return;
        }
        self.adt_seen.insert(did, ());
        let tcx = self.tcx;
        let def = tcx.adt_def(did);
        let env = TypingEnv::post_analysis(tcx, did);
        let mut variants = Vec::new();
        // only describe the fields of local ADTs and of a few std/heapless containers whose
        // shape the analyser needs (Option, Result, ControlFlow, nom::Err, ...): all enums and
        // all local items; foreign structs stay opaque.
        let describe = did.is_local() || def.is_enum();
        if describe {
            for (vi, v) in def.variants().iter_enumerated() {
                let mut fields = Vec::new();
                for f in v.fields.iter() {
                    let fty = tcx.type_of(f.did).instantiate_identity().skip_norm_wip();
                    let t = self.ty(fty, env);
                    fields.push(obj! {
                        "name" => js(f.name.to_string()),
                        "ty" => J::U(t as u128),
                        "pub" => J::B(f.vis.is_public()),
                    });
                }
                let discr = if def.is_enum() { def.discriminant_for_variant(tcx, vi).val } else { 0 };
                variants.push(obj! {
                    "name" => js(v.name.to_string()),
                    "discr" => J::U(discr),
                    "fields" => J::A(fields),
                });
            }
        }
        let kind = if def.is_enum() {
            "enum"
        } else if def.is_union() {
            "union"
        } else {
            "struct"
        };
        let j = obj! {
            "name" => js(self.def_name(did)),
            "kind" => js(kind),
            "local" => J::B(did.is_local()),
            "pub" => J::B(tcx.visibility(did).is_public()),
            "described" => J::B(describe),
            "variants" => J::A(variants),
            "loc" => self.loc(tcx.def_span(did)),
        };
        self.adts.push((self.def_key(did), j));
    }

    fn place(&mut self, p: &Place<'tcx>, env: TypingEnv<'tcx>) -> J {
        let mut proj = Vec::new();
        for e in p.projection.iter() {
            proj.push(match e {
                ProjectionElem::Deref => js("deref"),
                ProjectionElem::Field(f, t) => {
                    obj! {"f" => J::U(f.as_u32() as u128), "ty" => J::U(self.ty(t, env) as u128)}
                }
                ProjectionElem::Index(l) => obj! {"idx" => J::U(l.as_u32() as u128)},
                ProjectionElem::ConstantIndex { offset, min_length, from_end } => obj! {
                    "cidx" => J::U(offset as u128), "min" => J::U(min_length as u128), "from_end" => J::B(from_end)
                },
                ProjectionElem::Subslice { from, to, from_end } => obj! {
                    "sub_from" => J::U(from as u128), "sub_to" => J::U(to as u128), "from_end" => J::B(from_end)
                },
                ProjectionElem::Downcast(name, vi) => obj! {
                    "dc" => J::U(vi.as_u32() as u128),
                    "name" => match name { Some(n) => js(n.to_string()), None => J::Null }
                },
                ProjectionElem::OpaqueCast(_) => js("opaque_cast"),
                ProjectionElem::UnwrapUnsafeBinder(_) => js("unwrap_binder"),
            });
        }
        obj! {"l" => J::U(p.local.as_u32() as u128), "p" => J::A(proj)}
    }

    fn fn_ref(&mut self, did: DefId, args: ty::GenericArgsRef<'tcx>, env: TypingEnv<'tcx>) -> J {
        let tcx = self.tcx;
        let mut v = vec![
            ("def".to_string(), js(self.def_key(did))),
            ("name".to_string(), js(self.def_name(did))),
            ("krate".to_string(), js(tcx.crate_name(did.krate).to_string())),
            ("local".to_string(), J::B(did.is_local())),
            ("args".to_string(), self.generic_args(args, env)),
        ];
        if matches!(tcx.def_kind(did), DefKind::Fn | DefKind::AssocFn) {
            let sig = tcx.fn_sig(did).skip_binder();
            v.push(("unsafe".to_string(), J::B(!sig.safety().is_safe())));
            v.push(("abi".to_string(), js(format!("{:?}", sig.abi()))));
        }
        if let Some(tr) = tcx.trait_of_assoc(did) {
            v.push(("trait".to_string(), js(self.def_name(tr))));
        }
        if let Some(imp) = tcx.impl_of_assoc(did) {
            let self_ty = tcx.type_of(imp).instantiate_identity().skip_norm_wip();
            v.push(("impl_self".to_string(), js(format!("{}", self_ty))));
            if let Some(tr) = tcx.impl_opt_trait_ref(imp) {
                let tr = tr.instantiate_identity().skip_norm_wip();
                v.push(("impl_trait".to_string(), js(self.def_name(tr.def_id))));
            }
        }
        // Into::into / TryInto::try_into / FromResidual::from_residual go through a From impl:
        // resolve it so that the analyser can enter local conversion code
        if let Some(tr) = tcx.trait_of_assoc(did) {
            let from_tr = tcx.get_diagnostic_item(rustc_span::sym::From);
            let mut pair: Option<(Ty<'tcx>, Ty<'tcx>)> = None; // (target F, source E)
            if tcx.is_diagnostic_item(rustc_span::sym::Into, tr) && args.len() >= 2 {
                if let (Some(t), Some(u)) = (args[0].as_type(), args[1].as_type()) {
                    pair = Some((u, t));
                }
            } else if tcx.def_path_str(tr).ends_with("FromResidual") && args.len() >= 2 {
                if let (Some(slf), Some(res)) = (args[0].as_type(), args[1].as_type()) {
                    if let (ty::Adt(_, a1), ty::Adt(_, a2)) = (slf.kind(), res.kind()) {
                        if a1.len() == 2 && a2.len() == 2 {
                            if let (Some(f), Some(e)) = (a1[1].as_type(), a2[1].as_type()) {
                                pair = Some((f, e));
                            }
                        }
                    }
                }
            }
            if let (Some((f, e)), Some(from_tr)) = (pair, from_tr) {
                let from_fn = tcx.associated_items(from_tr).in_definition_order().next().map(|a| a.def_id);
                if let Some(from_fn) = from_fn {
                    let fargs = tcx.mk_args(&[f.into(), e.into()]);
                    let r = std::panic::catch_unwind(std::panic::AssertUnwindSafe(|| {
                        Instance::try_resolve(tcx, env, from_fn, fargs)
                    }));
                    if let Ok(Ok(Some(inst))) = r {
                        let rd = inst.def_id();
                        let mut fr = vec![
                            ("def".to_string(), js(self.def_key(rd))),
                            ("name".to_string(), js(self.def_name(rd))),
                            ("local".to_string(), J::B(rd.is_local())),
                            ("from_ty".to_string(), J::U(self.ty(e, env) as u128)),
                            ("to_ty".to_string(), J::U(self.ty(f, env) as u128)),
                            ("identity".to_string(), J::B(f == e)),
                        ];
                        if let Some(imp) = tcx.impl_of_assoc(rd) {
                            let self_ty = tcx.type_of(imp).instantiate_identity().skip_norm_wip();
                            fr.push(("impl_self".to_string(), js(format!("{}", self_ty))));
                        }
                        v.push(("via_from".to_string(), J::O(fr)));
                    }
                }
            }
        }
        // resolved instance (trait method -> impl; closure call -> closure body)
        let resolved = std::panic::catch_unwind(std::panic::AssertUnwindSafe(|| {
            Instance::try_resolve(tcx, env, did, args)
        }));
        if let Ok(Ok(Some(inst))) = resolved {
            let rd = inst.def_id();
            let kind = match inst.def {
                ty::InstanceKind::Item(_) => "item",
                ty::InstanceKind::Intrinsic(_) => "intrinsic",
                ty::InstanceKind::Virtual(..) => "virtual",
                ty::InstanceKind::ClosureOnceShim { .. } => "closure_once_shim",
                ty::InstanceKind::FnPtrShim(..) => "fnptr_shim",
                ty::InstanceKind::ReifyShim(..) => "reify_shim",
                ty::InstanceKind::DropGlue(..) => "drop_glue",
                ty::InstanceKind::CloneShim(..) => "clone_shim",
                _ => "other",
            };
            let mut r = vec![
                ("def".to_string(), js(self.def_key(rd))),
                ("name".to_string(), js(self.def_name(rd))),
                ("krate".to_string(), js(tcx.crate_name(rd.krate).to_string())),
                ("local".to_string(), J::B(rd.is_local())),
                ("kind".to_string(), js(kind)),
                ("args".to_string(), self.generic_args(inst.args, env)),
            ];
            if let Some(imp) = tcx.impl_of_assoc(rd) {
                let self_ty = tcx.type_of(imp).instantiate_identity().skip_norm_wip();
                r.push(("impl_self".to_string(), js(format!("{}", self_ty))));
            }
            v.push(("resolved".to_string(), J::O(r)));
        }
        J::O(v)
    }

    fn constant(&mut self, c: &mir::ConstOperand<'tcx>, env: TypingEnv<'tcx>) -> J {
        let tcx = self.tcx;
        let cty = c.const_.ty();
        let tix = self.ty(cty, env);
        let mut v = vec![("ty".to_string(), J::U(tix as u128))];
        match cty.kind() {
            ty::FnDef(did, args) => {
                v.push(("fn".to_string(), self.fn_ref(*did, args, env)));
                return J::O(v);
            }
            _ => {}
        }
        let val = std::panic::catch_unwind(std::panic::AssertUnwindSafe(|| {
            c.const_.eval(tcx, env, c.span)
        }));
        match val {
            Ok(Ok(cv)) => match cv {
                ConstValue::Scalar(mir::interpret::Scalar::Int(si)) => {
                    let bits = si.to_bits(si.size());
                    match cty.kind() {
                        ty::Int(_) => {
                            let w = si.size().bits();
                            let sv: i128 = if w == 128 {
                                bits as i128
                            } else if bits >> (w - 1) & 1 == 1 {
                                (bits as i128) - (1i128 << w)
                            } else {
                                bits as i128
                            };
                            v.push(("int".to_string(), J::I(sv)));
                        }
                        ty::Uint(_) | ty::Char => v.push(("int".to_string(), J::U(bits))),
                        ty::Bool => v.push(("int".to_string(), J::U(bits))),
                        ty::Float(_) => {
                            v.push(("fbits".to_string(), J::U(bits)));
                            let f = if si.size().bits() == 32 {
                                f32::from_bits(bits as u32) as f64
                            } else {
                                f64::from_bits(bits as u64)
                            };
                            v.push(("float".to_string(), js(format!("{:?}", f))));
                        }
                        _ => v.push(("bits".to_string(), J::U(bits))),
                    }
                }
                ConstValue::Scalar(_) => {
                    // pointer: try to read a byte-array / str constant through it
                    if let Some(bytes) = self.deref_bytes(&cv, cty) {
                        v.push(("bytes".to_string(), J::A(bytes.iter().map(|b| J::U(*b as u128)).collect())));
                    } else if let Some(t) = self.const_tree(cv, cty, env, 0) {
                        v.push(("tree".to_string(), t));
                    } else {
                        v.push(("opaque".to_string(), js(format!("{}", c.const_))));
                    }
                }
                ConstValue::ZeroSized => v.push(("zst".to_string(), J::B(true))),
                ConstValue::Slice { .. } => {
                    if let Some(b) = cv.try_get_slice_bytes_for_diagnostics(tcx) {
                        v.push(("bytes".to_string(), J::A(b.iter().map(|b| J::U(*b as u128)).collect())));
                    } else {
                        v.push(("opaque".to_string(), js(format!("{}", c.const_))));
                    }
                }
                ConstValue::Indirect { .. } => {
                    if let Some(t) = self.const_tree(cv, cty, env, 0) {
                        v.push(("tree".to_string(), t));
                    } else {
                        v.push(("opaque".to_string(), js(format!("{}", c.const_))));
                    }
                }
            },
            _ => {
                v.push(("uneval".to_string(), js(format!("{}", c.const_))));
            }
        }
        J::O(v)
    }

    /// structured value of an aggregate constant (promoted `&Some(1)` and the like)
    fn const_tree(&mut self, cv: ConstValue, cty: Ty<'tcx>, env: TypingEnv<'tcx>, depth: u32) -> Option<J> {
        let tcx = self.tcx;
        if depth > 6 {
            return None;
        }
        match cty.kind() {
            ty::Ref(_, inner, _) => {
                // a reference stored inside an allocation: load the pointer first
                let cv = if let ConstValue::Indirect { alloc_id, offset } = cv {
                    if let mir::interpret::GlobalAlloc::Memory(a) = tcx.global_alloc(alloc_id) {
                        let a = a.inner();
                        let prov = *a.provenance().ptrs().get(&offset)?;
                        let start = offset.bytes() as usize;
                        let b = a.inspect_with_uninit_and_ptr_outside_interpreter(start..start + 8);
                        let mut rel: u64 = 0;
                        for (i, x) in b.iter().enumerate() {
                            rel |= (*x as u64) << (8 * i);
                        }
                        let ptr = mir::interpret::Pointer::new(prov, rustc_abi::Size::from_bytes(rel));
                        ConstValue::Scalar(mir::interpret::Scalar::from_pointer(ptr, &tcx))
                    } else {
                        return None;
                    }
                } else {
                    cv
                };
                if let ConstValue::Scalar(mir::interpret::Scalar::Ptr(ptr, _)) = cv {
                    let (prov, off) = ptr.prov_and_relative_offset();
                    if !inner.is_sized(tcx, env) {
                        return None;
                    }
                    let inner_cv = ConstValue::Indirect { alloc_id: prov.alloc_id(), offset: off };
                    // scalars behind a reference: read the little-endian bytes of the allocation
                    if inner.is_integral() || inner.is_bool() || inner.is_char() {
                        let size = tcx.layout_of(env.as_query_input(*inner)).ok()?.size.bytes() as usize;
                        if let mir::interpret::GlobalAlloc::Memory(a) = tcx.global_alloc(prov.alloc_id()) {
                            let a = a.inner();
                            let start = off.bytes() as usize;
                            let b = a.inspect_with_uninit_and_ptr_outside_interpreter(start..start + size);
                            let mut bits: u128 = 0;
                            for (i, x) in b.iter().enumerate() {
                                bits |= (*x as u128) << (8 * i);
                            }
                            let tix = self.ty(*inner, env);
                            let v = match inner.kind() {
                                ty::Int(_) => {
                                    let w = (size * 8) as u32;
                                    let sv: i128 = if w < 128 && (bits >> (w - 1)) & 1 == 1 { (bits as i128) - (1i128 << w) } else { bits as i128 };
                                    J::I(sv)
                                }
                                _ => J::U(bits),
                            };
                            return Some(obj! {"ref" => obj!{"ty" => J::U(tix as u128), "int" => v}});
                        }
                        return None;
                    }
                    let t = self.const_tree(inner_cv, *inner, env, depth + 1)?;
                    return Some(obj! {"ref" => t});
                }
                None
            }
            ty::Adt(..) | ty::Tuple(..) | ty::Array(..) => {
                let d = std::panic::catch_unwind(std::panic::AssertUnwindSafe(|| {
                    tcx.try_destructure_mir_constant_for_user_output(cv, cty)
                }))
                .ok()??;
                let mut fields = Vec::new();
                for (fv, fty) in d.fields.iter() {
                    let j = match fv {
                        ConstValue::Scalar(mir::interpret::Scalar::Int(si)) => {
                            let bits = si.to_bits(si.size());
                            let tix = self.ty(*fty, env);
                            let v = match fty.kind() {
                                ty::Int(_) => {
                                    let w = si.size().bits();
                                    let sv: i128 = if w < 128 && (bits >> (w - 1)) & 1 == 1 { (bits as i128) - (1i128 << w) } else { bits as i128 };
                                    J::I(sv)
                                }
                                _ => J::U(bits),
                            };
                            obj! {"ty" => J::U(tix as u128), "int" => v}
                        }
                        ConstValue::ZeroSized => obj! {"ty" => J::U(self.ty(*fty, env) as u128), "zst" => J::B(true)},
                        other => {
                            let t = self.const_tree(*other, *fty, env, depth + 1)?;
                            obj! {"ty" => J::U(self.ty(*fty, env) as u128), "tree" => t}
                        }
                    };
                    fields.push(j);
                }
                let tix = self.ty(cty, env);
                Some(obj! {
                    "ty" => J::U(tix as u128),
                    "variant" => match d.variant { Some(v) => J::U(v.as_u32() as u128), None => J::Null },
                    "fields" => J::A(fields),
                })
            }
            _ => None,
        }
    }

    fn deref_bytes(&self, cv: &ConstValue, cty: Ty<'tcx>) -> Option<Vec<u8>> {
        // &[u8; N] constants (byte string literals)
        let tcx = self.tcx;
        let inner = match cty.kind() {
            ty::Ref(_, inner, _) => *inner,
            _ => return None,
        };
        let n = match inner.kind() {
            ty::Array(et, len) if matches!(et.kind(), ty::Uint(ty::UintTy::U8)) => {
                len.try_to_target_usize(tcx)?
            }
            _ => return None,
        };
        if let ConstValue::Scalar(mir::interpret::Scalar::Ptr(ptr, _)) = cv {
            let (prov, off) = ptr.prov_and_relative_offset();
            let alloc = tcx.global_alloc(prov.alloc_id());
            if let mir::interpret::GlobalAlloc::Memory(a) = alloc {
                let a = a.inner();
                let start = off.bytes() as usize;
                let b = a.inspect_with_uninit_and_ptr_outside_interpreter(start..start + n as usize);
                return Some(b.to_vec());
            }
        }
        None
    }

    fn operand(&mut self, o: &Operand<'tcx>, env: TypingEnv<'tcx>) -> J {
        match o {
            Operand::Copy(p) => obj! {"copy" => self.place(p, env)},
            Operand::Move(p) => obj! {"move" => self.place(p, env)},
            Operand::Constant(c) => obj! {"const" => self.constant(c, env)},
            #[allow(unreachable_patterns)]
            other => obj! {"rtcheck" => js(format!("{:?}", other))},
        }
    }

    fn rvalue(&mut self, r: &Rvalue<'tcx>, env: TypingEnv<'tcx>) -> J {
        match r {
            Rvalue::Use(o, ..) => obj! {"use" => self.operand(o, env)},
            Rvalue::Repeat(o, n) => obj! {"repeat" => self.operand(o, env), "n" => self.ty_const(*n, env)},
            Rvalue::Ref(_, bk, p) => {
                let m = matches!(bk, BorrowKind::Mut { .. });
                obj! {"ref" => self.place(p, env), "mut" => J::B(m)}
            }
            Rvalue::RawPtr(k, p) => obj! {"rawptr" => self.place(p, env), "kind" => js(format!("{:?}", k))},
            Rvalue::Cast(k, o, t) => {
                let kind = match k {
                    mir::CastKind::IntToInt => "IntToInt".to_string(),
                    mir::CastKind::IntToFloat => "IntToFloat".to_string(),
                    mir::CastKind::FloatToInt => "FloatToInt".to_string(),
                    mir::CastKind::FloatToFloat => "FloatToFloat".to_string(),
                    mir::CastKind::PtrToPtr => "PtrToPtr".to_string(),
                    mir::CastKind::Transmute => "Transmute".to_string(),
                    mir::CastKind::PointerCoercion(pc, _) => format!("PointerCoercion({:?})", pc),
                    other => format!("{:?}", other),
                };
                obj! {"cast" => js(kind), "x" => self.operand(o, env), "ty" => J::U(self.ty(*t, env) as u128)}
            }
            Rvalue::BinaryOp(op, b) => {
                let (l, r) = &**b;
                obj! {"bin" => js(format!("{:?}", op)), "l" => self.operand(l, env), "r" => self.operand(r, env)}
            }
            Rvalue::UnaryOp(op, o) => obj! {"un" => js(format!("{:?}", op)), "x" => self.operand(o, env)},
            Rvalue::Discriminant(p) => obj! {"disc" => self.place(p, env)},
            Rvalue::Aggregate(k, ops) => {
                let opsj: Vec<J> = ops.iter().map(|o| self.operand(o, env)).collect();
                let kind = match &**k {
                    AggregateKind::Array(t) => obj! {"array" => J::U(self.ty(*t, env) as u128)},
                    AggregateKind::Tuple => js("tuple"),
                    AggregateKind::Adt(did, vi, args, _, active) => {
                        self.adt(*did);
                        let def = self.tcx.adt_def(*did);
                        let v = def.variant(*vi);
                        let names: Vec<J> = v.fields.iter().map(|f| js(f.name.to_string())).collect();
                        obj! {
                            "adt" => js(self.def_key(*did)),
                            "name" => js(self.def_name(*did)),
                            "variant" => J::U(vi.as_u32() as u128),
                            "vname" => js(v.name.to_string()),
                            "fields" => J::A(names),
                            "args" => self.generic_args(args, env),
                            "union_field" => match active { Some(f) => J::U(f.as_u32() as u128), None => J::Null }
                        }
                    }
                    AggregateKind::Closure(did, _) => obj! {"closure" => js(self.def_key(*did))},
                    other => obj! {"other" => js(format!("{:?}", other))},
                };
                obj! {"agg" => kind, "ops" => J::A(opsj)}
            }
            Rvalue::CopyForDeref(p) => obj! {"use" => obj!{"copy" => self.place(p, env)}},
            other => obj! {"other_rvalue" => js(format!("{:?}", other))},
        }
    }

    fn body(&mut self, did: DefId) -> Option<J> {
        let tcx = self.tcx;
        let kind = tcx.def_kind(did);
        let is_fn = matches!(kind, DefKind::Fn | DefKind::AssocFn | DefKind::Closure);
        if !is_fn {
            return None;
        }
        let env = TypingEnv::post_analysis(tcx, did);
        let body = tcx.optimized_mir(did);
        let mut locals = Vec::new();
        for (_l, d) in body.local_decls.iter_enumerated() {
            locals.push(J::U(self.ty(d.ty, env) as u128));
        }
        let mut names = Vec::new();
        for vdi in body.var_debug_info.iter() {
            if let mir::VarDebugInfoContents::Place(p) = &vdi.value {
                names.push(obj! {"name" => js(vdi.name.to_string()), "place" => self.place(p, env)});
            }
        }
        let mut blocks = Vec::new();
        let mut n_assert = 0u32;
        for (_bb, data) in body.basic_blocks.iter_enumerated() {
            let mut stmts = Vec::new();
            for s in data.statements.iter() {
                match &s.kind {
                    StatementKind::Assign(b) => {
                        let (p, r) = &**b;
                        stmts.push(obj! {
                            "assign" => self.place(p, env),
                            "rv" => self.rvalue(r, env),
                            "loc" => self.loc(s.source_info.span),
                        });
                    }
                    StatementKind::SetDiscriminant { place, variant_index } => {
                        stmts.push(obj! {
                            "set_disc" => self.place(place, env),
                            "variant" => J::U(variant_index.as_u32() as u128),
                        });
                    }
                    StatementKind::Intrinsic(i) => {
                        stmts.push(obj! {"intrinsic" => js(format!("{:?}", i))});
                    }
                    StatementKind::StorageLive(_)
                    | StatementKind::StorageDead(_)
                    | StatementKind::Nop
                    | StatementKind::FakeRead(..)
                    | StatementKind::PlaceMention(..)
                    | StatementKind::AscribeUserType(..)
                    | StatementKind::Coverage(..)
                    | StatementKind::ConstEvalCounter
                    | StatementKind::BackwardIncompatibleDropHint { .. } => {}
                }
            }
            let t = data.terminator();
            let sp = t.source_info.span;
            let term = match &t.kind {
                TerminatorKind::Goto { target } => obj! {"goto" => J::U(target.as_u32() as u128)},
                TerminatorKind::SwitchInt { discr, targets } => {
                    let mut tv = Vec::new();
                    for (val, bb) in targets.iter() {
                        tv.push(J::A(vec![J::U(val), J::U(bb.as_u32() as u128)]));
                    }
                    let dty = discr.ty(&body.local_decls, tcx);
                    obj! {
                        "switch" => self.operand(discr, env),
                        "ty" => J::U(self.ty(dty, env) as u128),
                        "targets" => J::A(tv),
                        "otherwise" => J::U(targets.otherwise().as_u32() as u128),
                    }
                }
                TerminatorKind::Return => obj! {"return" => J::B(true)},
                TerminatorKind::Unreachable => obj! {"unreachable" => J::B(true)},
                TerminatorKind::UnwindResume => obj! {"resume" => J::B(true)},
                TerminatorKind::UnwindTerminate(_) => obj! {"unwind_terminate" => J::B(true)},
                TerminatorKind::Drop { place, target, .. } => obj! {
                    "drop" => self.place(place, env),
                    "target" => J::U(target.as_u32() as u128),
                },
                TerminatorKind::Call { func, args, destination, target, fn_span, .. } => {
                    let argsj: Vec<J> = args.iter().map(|a| self.operand(&a.node, env)).collect();
                    let fty = func.ty(&body.local_decls, tcx);
                    let callee = match fty.kind() {
                        ty::FnDef(d, a) => self.fn_ref(*d, a, env),
                        _ => obj! {"indirect" => self.operand(func, env), "fty" => J::U(self.ty(fty, env) as u128)},
                    };
                    obj! {
                        "call" => callee,
                        "args" => J::A(argsj),
                        "dest" => self.place(destination, env),
                        "target" => match target { Some(t) => J::U(t.as_u32() as u128), None => J::Null },
                        "loc" => self.loc(*fn_span),
                        "macros" => self.macros(sp),
                    }
                }
                TerminatorKind::Assert { cond, expected, msg, target, .. } => {
                    n_assert += 1;
                    let (k, ops): (String, Vec<J>) = match &**msg {
                        mir::AssertKind::BoundsCheck { len, index } => (
                            "BoundsCheck".into(),
                            vec![self.operand(len, env), self.operand(index, env)],
                        ),
                        mir::AssertKind::Overflow(op, a, b) => (
                            format!("Overflow({:?})", op),
                            vec![self.operand(a, env), self.operand(b, env)],
                        ),
                        mir::AssertKind::OverflowNeg(a) => ("OverflowNeg".into(), vec![self.operand(a, env)]),
                        mir::AssertKind::DivisionByZero(a) => ("DivisionByZero".into(), vec![self.operand(a, env)]),
                        mir::AssertKind::RemainderByZero(a) => ("RemainderByZero".into(), vec![self.operand(a, env)]),
                        other => (format!("{:?}", other), vec![]),
                    };
                    obj! {
                        "assert" => self.operand(cond, env),
                        "expected" => J::B(*expected),
                        "kind" => js(k),
                        "ops" => J::A(ops),
                        "target" => J::U(target.as_u32() as u128),
                        "loc" => self.loc(sp),
                        "macros" => self.macros(sp),
                    }
                }
                other => obj! {"other_term" => js(format!("{:?}", other))},
            };
            blocks.push(obj! {
                "stmts" => J::A(stmts),
                "term" => term,
                "cleanup" => J::B(data.is_cleanup),
            });
        }
        let mut v = vec![
            ("def".to_string(), js(self.def_key(did))),
            ("name".to_string(), js(self.def_name(did))),
            ("kind".to_string(), js(format!("{:?}", kind))),
            ("loc".to_string(), self.loc(tcx.def_span(did))),
            ("from_macro".to_string(), J::B(tcx.def_span(did).from_expansion())),
            ("arg_count".to_string(), J::U(body.arg_count as u128)),
            ("locals".to_string(), J::A(locals)),
            ("names".to_string(), J::A(names)),
            ("blocks".to_string(), J::A(blocks)),
            ("n_assert".to_string(), J::U(n_assert as u128)),
        ];
        if matches!(kind, DefKind::Fn | DefKind::AssocFn) {
            v.push(("pub".to_string(), J::B(tcx.visibility(did).is_public())));
            let sig = tcx.fn_sig(did).skip_binder();
            v.push(("unsafe".to_string(), J::B(!sig.safety().is_safe())));
            let generics = tcx.generics_of(did);
            let gp: Vec<J> = generics
                .own_params
                .iter()
                .filter(|p| !matches!(p.kind, ty::GenericParamDefKind::Lifetime))
                .map(|p| js(p.name.to_string()))
                .collect();
            v.push(("generics".to_string(), J::A(gp)));
        }
        if let Some(tr) = tcx.trait_of_assoc(did) {
            v.push(("trait".to_string(), js(self.def_name(tr))));
        }
        if let Some(imp) = tcx.impl_of_assoc(did) {
            let self_ty = tcx.type_of(imp).instantiate_identity().skip_norm_wip();
            v.push(("impl_self".to_string(), js(format!("{}", self_ty))));
            let sti = self.ty(self_ty, env);
            v.push(("impl_self_ty".to_string(), J::U(sti as u128)));
            // #[automatically_derived]: the impl was written by a derive macro
            v.push(("derived".to_string(), J::B(tcx.is_automatically_derived(imp))));
            if let Some(tr) = tcx.impl_opt_trait_ref(imp) {
                let tr = tr.instantiate_identity().skip_norm_wip();
                v.push(("impl_trait".to_string(), js(self.def_name(tr.def_id))));
                v.push(("impl_trait_ref".to_string(), js(format!("{}", tr))));
            }
        }
        if matches!(kind, DefKind::Closure) {
            let parent = tcx.parent(did);
            v.push(("parent".to_string(), js(self.def_key(parent))));
        }
        Some(J::O(v))
    }
}

struct Cb;

impl rustc_driver::Callbacks for Cb {
    fn after_analysis<'tcx>(&mut self, _c: &Compiler, tcx: TyCtxt<'tcx>) -> Compilation {
        let out_dir = match std::env::var("AISFACTS_OUT") {
            Ok(d) => d,
            Err(_) => return Compilation::Continue,
        };
        let crate_name = tcx.crate_name(LOCAL_CRATE).to_string();
        let mut d = Dump { tcx, types: Vec::new(), type_ix: HashMap::new(), adts: Vec::new(), adt_seen: HashMap::new() };
        let mut bodies = Vec::new();
        let mut owners: Vec<DefId> = tcx.hir_body_owners().map(|l| l.to_def_id()).collect();
        owners.sort_by_key(|d| tcx.def_path(*d).to_string_no_crate_verbose());
        for did in owners {
            if let Some(b) = d.body(did) {
                bodies.push(b);
            }
        }
        // item tables
        let mut statics = Vec::new();
        let mut consts = Vec::new();
        let mut local_adts = Vec::new();
        for id in tcx.hir_crate_items(()).definitions() {
            let did = id.to_def_id();
            match tcx.def_kind(did) {
                DefKind::Static { mutability, .. } => {
                    statics.push(obj! {"def" => js(d.def_key(did)), "mut" => J::B(mutability.is_mut()), "loc" => d.loc(tcx.def_span(did))});
                }
                DefKind::Const { .. } | DefKind::AssocConst { .. } => {
                    let env = TypingEnv::post_analysis(tcx, did);
                    // an associated const that a trait only declares (`const CLEAR: Self;`) has no
                    // body to evaluate - asking for one is an internal compiler error
                    // (the defaultness query itself is only defined for items of a trait)
                    let in_trait = matches!(tcx.def_kind(did), DefKind::AssocConst { .. })
                        && matches!(tcx.def_kind(tcx.parent(did)), DefKind::Trait);
                    let has_value = !in_trait || tcx.defaultness(did).has_value();
                    let val = std::panic::catch_unwind(std::panic::AssertUnwindSafe(|| {
                        if has_value { tcx.const_eval_poly(did) } else { Err(rustc_middle::mir::interpret::ErrorHandled::TooGeneric(tcx.def_span(did))) }
                    }));
                    let mut jv = J::Null;
                    if let Ok(Ok(cv)) = val {
                        if let Some(si) = cv.try_to_scalar_int() {
                            jv = J::U(si.to_bits(si.size()));
                        }
                    }
                    let cty = tcx.type_of(did).instantiate_identity().skip_norm_wip();
                    let t = d.ty(cty, env);
                    consts.push(obj! {"def" => js(d.def_key(did)), "name" => js(d.def_name(did)), "value" => jv, "ty" => J::U(t as u128)});
                }
                DefKind::Struct | DefKind::Enum | DefKind::Union => {
                    d.adt(did);
                    local_adts.push(js(d.def_key(did)));
                }
                _ => {}
            }
        }
        let top = obj! {
            "crate" => js(crate_name.clone()),
            "config" => js(std::env::var("AISFACTS_CFG").unwrap_or_default()),
            "rustc" => js(rustc_interface::util::rustc_version_str().unwrap_or("unknown")),
            "types" => J::A(d.types.clone()),
            "adts" => J::O(d.adts.clone()),
            "local_adts" => J::A(local_adts),
            "statics" => J::A(statics),
            "consts" => J::A(consts),
            "bodies" => J::A(bodies),
        };
        let mut s = String::new();
        top.write(&mut s);
        let path = format!("{}/{}.json", out_dir, crate_name);
        std::fs::write(&path, s).expect("aisfacts: cannot write facts file");
        Compilation::Continue
    }
}

fn main() {
    let mut args: Vec<String> = std::env::args().collect();
    // RUSTC_WORKSPACE_WRAPPER mode: argv[1] is the path of the real rustc
    if args.len() > 1 && (args[1].ends_with("rustc") || args[1].contains("/rustc")) {
        args.remove(1);
    }
    rustc_driver::run_compiler(&args, &mut Cb);
}
