"""Development-time self test: one-line mutants of /repo that compile (and mostly pass the 59
tests) and must be reported by the named rule; and behaviour-preserving edits that must raise
nothing.  Usage:  python3 selftest/mutants.py [name-substring ...] [--tests]
Never touches /repo: works on a scratch copy under /tmp that is removed afterwards."""
import os, re, shutil, subprocess, sys, tempfile, json

M = []          # (name, file, old, new, [properties expected to fire])
N = []          # neutral edits: (name, file, old, new, [properties that must stay silent])


SS = "src/sentence.rs"


def m(name, file, old, new, props):
    M.append((name, file, old, new, props))


def n(name, file, old, new, props):
    N.append((name, file, old, new, props))


S = "src/messages/"
# ---- C04
m("c04-t19-heading-width", S + "extended_class_b_position_report.rs",
  "let (data, true_heading) = map(take_bits(9u16), parse_heading)(data)?;\n        let (data, timestamp) = take_bits(6u8)(data)?;\n        let (data, _regional_reserved) = take_bits::<_, u8, _, _>(4u8)(data)?;",
  "let (data, true_heading) = map(take_bits(10u16), parse_heading)(data)?;\n        let (data, timestamp) = take_bits(6u8)(data)?;\n        let (data, _regional_reserved) = take_bits::<_, u8, _, _>(3u8)(data)?;", ["C04"])
m("c04-t21-port-starboard-swapped", S + "aid_to_navigation_report.rs",
  "                dimension_to_port,\n                dimension_to_starboard,", "                dimension_to_port: dimension_to_starboard,\n                dimension_to_starboard: dimension_to_port,", ["C04"])
m("c04-t16-offset2-11bits", S + "assignment_mode_command.rs", "let (data, offset2) = take_bits(12u16)(data)?;", "let (data, offset2) = take_bits(11u16)(data)?;", ["C04"])
m("c04-revert-F6", None, "selftest/reverts/F6.patch", None, ["C04"])
m("c04-t6-dac-fid", S + "binary_addressed.rs", "let (data, dac) = take_bits(10u16)(data)?;\n        let (data, fid) = take_bits(6u8)(data)?;", "let (data, dac) = take_bits(9u16)(data)?;\n        let (data, fid) = take_bits(7u8)(data)?;", ["C04"])
# ---- C09
m("c09-7-13-swapped", S + "mod.rs", "7 => Ok(AisMessage::BinaryAcknowledgeMessage(\n            binary_acknowledge::BinaryAcknowledge::parse(unarmored)?,\n        )),",
  "13 => Ok(AisMessage::BinaryAcknowledgeMessage(\n            binary_acknowledge::BinaryAcknowledge::parse(unarmored)?,\n        )),", ["C09"])
m("c09-22-as-static", S + "mod.rs", "24 => Ok(AisMessage::StaticDataReport(", "24 | 22 => Ok(AisMessage::StaticDataReport(", ["C09"])
n("n-c09-23-to-position", S + "mod.rs", "1..=3 => Ok(AisMessage::PositionReport(", "1..=3 | 23 => Ok(AisMessage::PositionReport(", ["C09"])
# ---- C12
m("c12-ship-31-32", S + "types.rs", "31 => Some(Self::Towing),\n            32 => Some(Self::TowingLarge),", "32 => Some(Self::Towing),\n            31 => Some(Self::TowingLarge),", ["C12"])
m("c12-assigned-mode-from-spare", S + "standard_aircraft_position_report.rs", "        let (data, _spare) = take_bits::<_, u8, _, _>(3u8)(data)?;\n        let (data, assigned_mode) = map(take_bits(1u8), AssignedMode::parse)(data)?;", "        let (data, assigned_mode) = map(take_bits(1u8), AssignedMode::parse)(data)?;\n        let (data, _spare) = take_bits::<_, u8, _, _>(3u8)(data)?;", ["C12", "C04"])
m("c02-body-bounded-run", SS, "peek(take_until(\"*\"))", "peek(nom::bytes::complete::take_while_m_n(0, 384, |c| c != b'*'))", ["C02"])
m("c04-bool-inverted", S + "parsers.rs", "        0 => false,\n        1 => true,\n        _ => unreachable!(),", "        0 => true,\n        1 => false,\n        _ => unreachable!(),", ["C04"])
m("c04-bool-eq-zero", S + "parsers.rs", "    match data {\n        0 => false,\n        1 => true,\n        _ => unreachable!(),\n    }", "    data == 0", ["C04"])
n("n-c13-sixbit-lookup-table", S + "parsers.rs", "        0..=31 => Ok(data + 64),\n        32..=63 => Ok(data),\n        _ => Err(format!", "        0..=63 => Ok(b\"@ABCDEFGHIJKLMNOPQRSTUVWXYZ[\\\\]^_ !\\\"#$%&'()*+,-./0123456789:;<=>?\"[data as usize]),\n        _ => Err(format!", ["C13", "C01", "C18"])
m("c13-sixbit-lookup-table-typo", S + "parsers.rs", "        0..=31 => Ok(data + 64),\n        32..=63 => Ok(data),\n        _ => Err(format!", "        0..=63 => Ok(b\"@ABCDEFGHIJKLMNOPQRSTUVWXYZ[\\\\]^_ !\\\"#$%&'()*+,-./0123456789;:<=>?\"[data as usize]),\n        _ => Err(format!", ["C13"])
n("n-c04-bool-ne-zero", S + "parsers.rs", "    match data {\n        0 => false,\n        1 => true,\n        _ => unreachable!(),\n    }", "    data != 0", ["C04", "C01", "C18"])
n("n-c11-year-if", S + "parsers.rs", "|year| match year {\n        0 => None,\n        _ => Some(year),\n    }", "|year| if year == 0 { None } else { Some(year) }", ["C11", "C04", "C01"])
n("n-c10-sext-by-shifts", S + "parsers.rs", "        match (num << (32 - len)).leading_zeros() {\n            0 => num | mask,\n            _ => !mask & num,\n        },", "        { let _ = mask; if len == 0 { 0 } else { (num << (32 - len)) >> (32 - len) } },", ["C10", "C04", "C11", "C01"])
n("n-c02-body-take-till", SS, "peek(take_until(\"*\"))", "peek(nom::sequence::terminated(nom::bytes::complete::take_till(|c| c == b'*'), peek(nom::character::complete::char('*'))))", ["C02", "C08", "C01"])
m("c07-channel-alpha-only", SS, "opt(anychar)(channel_bytes)", "opt(nom::combinator::verify(anychar, |c: &char| c.is_ascii_alphabetic()))(channel_bytes)", ["C07"])
m("c10-type27-cog-via-tenths", S + "long_range_ais_broadcast.rs", "        _ => Some(data as f32), // Course in degrees (0-359)", "        _ => parse_cog(data * 10),", ["C10", "C11"])
m("c09-parse-armored-payload", SS, "ais_sentence.message = Some(messages::parse(&unarmored)?)", "{ let _ = &unarmored; ais_sentence.message = Some(messages::parse(&ais_sentence.data)?) }", ["C09"])
m("c18-alloc-only-no-trim-start", S + "parsers.rs", "    let char_count = size / 6;\n", "    #[cfg(all(feature = \"alloc\", not(feature = \"std\")))]\n    let size = if size > 120 { size - 6 } else { size };\n    let char_count = size / 6;\n", ["C18", "C13"])
n("n-c04-raim-nom-bool", S + "position_report.rs", "let (data, raim) = map(take_bits(1u8), u8_to_bool)(data)?;", "let (data, raim) = nom::bits::complete::bool(data)?;", ["C04", "C01", "C18"])
m("c04-raim-nom-bool-inverted", S + "position_report.rs", "let (data, raim) = map(take_bits(1u8), u8_to_bool)(data)?;", "let (data, raim) = map(nom::bits::complete::bool, |b: bool| !b)(data)?;", ["C04"])
n("n-c16-keep-nom-bool", S + "radio_status.rs", "let (data, keep) = map(take_bits(1u8), u8_to_bool)(data)?;", "let (data, keep) = nom::bits::complete::bool(data)?;", ["C16", "C04", "C01"])
m("c16-keep-nom-bool-inverted", S + "radio_status.rs", "let (data, keep) = map(take_bits(1u8), u8_to_bool)(data)?;", "let (data, keep) = map(nom::bits::complete::bool, |b: bool| !b)(data)?;", ["C16"])
n("n-c03-zip-step-by", S + "mod.rs", ["    let mut offset = 0;\n    for byte in data {", "        offset += 6;\n"], ["    for (byte, offset) in data.iter().zip((0usize..).step_by(6)) {", ""], ["C03", "C01", "C18"])
m("c03-zip-step-by-5", S + "mod.rs", ["    let mut offset = 0;\n    for byte in data {", "        offset += 6;\n"], ["    for (byte, offset) in data.iter().zip((0usize..).step_by(5)) {", ""], ["C03"])
n("n-c10-rot-from-be-bytes", S + "navigation.rs", "match data as i8 {", "match i8::from_be_bytes([data]) {", ["C10", "C04", "C01"])
n("n-c15-dgnss-alloc-collect", S + "dgnss_broadcast_binary_message.rs", "        let data_owned = data.0.into();\n", "        let data_owned: CorrectionData = data.0.iter().copied().collect();\n", ["C15", "C18", "C01", "C04"])
m("c18-dgnss-collect-all-configs", S + "dgnss_broadcast_binary_message.rs", "        #[cfg(any(feature = \"std\", feature = \"alloc\"))]\n        let data_owned = data.0.into();\n        #[cfg(all(not(feature = \"std\"), not(feature = \"alloc\")))]\n        let data_owned = data.0.try_into().map_err(|_| {\n            nom::Err::Failure(nom::error::Error::new(\n                data,\n                nom::error::ErrorKind::TooLarge,\n            ))\n        })?;\n", "        let data_owned: CorrectionData = data.0.iter().copied().collect();\n", ["C18", "C01"])
m("c05-extend-inside-debug-assert", SS, "        self.data\n            .extend_from_slice(&ais_sentence.data)\n            .map_err(|_| Error::from(\"Vec is full on extend_from_slice\"))?;\n", "        {\n            if ais_sentence.data.len() + self.data.len() > self.data.capacity() {\n                return Err(Error::from(\"Vec is full on extend_from_slice\"));\n            }\n            debug_assert!(self.data.extend_from_slice(&ais_sentence.data).is_ok());\n        }\n", ["C05", "C18"])
m("c05-alloc-extend-inside-debug-assert", SS, "        self.data.extend_from_slice(&ais_sentence.data);\n", "        debug_assert!({ self.data.extend_from_slice(&ais_sentence.data); true });\n", ["C05", "C06"])
n("n-c05-pure-debug-assert", SS, "        // Only a fragment whose payload has been stored advances the group\n", "        debug_assert!(ais_sentence.num_fragments != 1 || ais_sentence.fragment_number <= 255);\n", ["C05", "C06", "C17", "C01", "C18"])
n("n-c20-manual-debug-rot", S + "navigation.rs", "#[derive(Debug, Copy, Clone, PartialEq, Eq)]\npub struct RateOfTurn {\n    raw: i8,\n}\n", "#[derive(Copy, Clone, PartialEq, Eq)]\npub struct RateOfTurn {\n    raw: i8,\n}\n\nimpl core::fmt::Debug for RateOfTurn {\n    fn fmt(&self, f: &mut core::fmt::Formatter<'_>) -> core::fmt::Result {\n        f.debug_struct(\"RateOfTurn\").field(\"raw\", &self.raw).finish()\n    }\n}\n", ["C20", "C01", "C10"])
m("c20-manual-debug-rot-unwrap", S + "navigation.rs", "#[derive(Debug, Copy, Clone, PartialEq, Eq)]\npub struct RateOfTurn {\n    raw: i8,\n}\n", "#[derive(Copy, Clone, PartialEq, Eq)]\npub struct RateOfTurn {\n    raw: i8,\n}\n\nimpl core::fmt::Debug for RateOfTurn {\n    fn fmt(&self, f: &mut core::fmt::Formatter<'_>) -> core::fmt::Result {\n        f.debug_struct(\"RateOfTurn\").field(\"raw\", &self.raw).field(\"rate\", &self.rate().unwrap()).finish()\n    }\n}\n", ["C20"])
m("c12-shiptype-eq-by-discriminant", S + "types.rs", "#[derive(Debug, PartialEq, Eq, Copy, Clone)]\npub enum ShipType {", "impl PartialEq for ShipType {\n    fn eq(&self, other: &Self) -> bool {\n        core::mem::discriminant(self) == core::mem::discriminant(other)\n    }\n}\n\n#[derive(Debug, Eq, Copy, Clone)]\npub enum ShipType {", ["C12"])
n("n-c15-dgnss-header-by-bytes", S + "dgnss_broadcast_binary_message.rs", "        let (data, message_type) = take_bits(6u8)(data)?;\n        let (data, station_id) = take_bits(10u8)(data)?;\n", "        let (data, b0) = take_bits::<_, u8, _, _>(8u8)(data)?;\n        let (data, b1) = take_bits::<_, u8, _, _>(8u8)(data)?;\n        let message_type = b0 >> 2;\n        let station_id = (u16::from(b0) & 0x03) << 8 | u16::from(b1);\n", ["C15", "C04", "C01", "C18"])
m("c15-dgnss-header-by-bytes-precedence", S + "dgnss_broadcast_binary_message.rs", "        let (data, message_type) = take_bits(6u8)(data)?;\n        let (data, station_id) = take_bits(10u8)(data)?;\n", "        let (data, b0) = take_bits::<_, u8, _, _>(8u8)(data)?;\n        let (data, b1) = take_bits::<_, u8, _, _>(8u8)(data)?;\n        let message_type = b0 >> 2;\n        let station_id = u16::from(b0) & 0x03 << 8 | u16::from(b1);\n", ["C15", "C04"])
m("c14-dte-default-ready", S + "types.rs", "    Ready,\n    #[default]\n    NotReady,\n", "    #[default]\n    Ready,\n    NotReady,\n", ["C14"])
m("c06-new-parser-counter-1", SS, "    pub fn new() -> Self {\n        Self::default()\n    }", "    pub fn new() -> Self {\n        Self { fragment_number: 1, ..Self::default() }\n    }", ["C06"])
m("c05-append-twice-with-std-and-alloc", SS, "        #[cfg(any(feature = \"std\", feature = \"alloc\"))]\n        self.data.extend_from_slice(&ais_sentence.data);\n", "        #[cfg(feature = \"std\")]\n        self.data.extend_from_slice(&ais_sentence.data);\n        #[cfg(feature = \"alloc\")]\n        self.data.extend_from_slice(&ais_sentence.data);\n", ["C05", "C06", "C18"])
m("c12-shiptype-manual-clone-slip", S + "types.rs", "#[derive(Debug, PartialEq, Eq, Copy, Clone)]\npub enum ShipType {", "impl Clone for ShipType {\n    fn clone(&self) -> Self {\n        match *self {\n            ShipType::TankerReserved(v) => ShipType::CargoReserved(v),\n            other => other,\n        }\n    }\n}\n\n#[derive(Debug, PartialEq, Eq, Copy)]\npub enum ShipType {", ["C12"])
m("c16-sotdma-eq-ignores-timeout", S + "radio_status.rs", "#[derive(Debug, PartialEq, Eq)]\npub struct SotdmaMessage {", "impl PartialEq for SotdmaMessage {\n    fn eq(&self, other: &Self) -> bool {\n        self.sync_state == other.sync_state && self.sub_message == other.sub_message\n    }\n}\n\n#[derive(Debug, Eq)]\npub struct SotdmaMessage {", ["C16", "C04"])
m("c11-rot-direction-absent-at-127", S + "navigation.rs", "            1..=127 => Some(Direction::Starboard),\n            -127..=-1 => Some(Direction::Port),", "            -127 | 127 => None,\n            1..=126 => Some(Direction::Starboard),\n            -126..=-1 => Some(Direction::Port),", ["C11"])
m("c16-utc-submessage-spare-not-read", S + "radio_status.rs", "        let (data, minute) = take_bits(6u8)(data)?;\n        let (data, _spare) = take_bits::<_, u8, _, _>(2u8)(data)?;\n", "        let (data, minute) = take_bits(6u8)(data)?;\n", ["C16"])
m("c20-record-with-precision", "src/bin/aisparser.rs", "        println!(\n            \"{:?}\\t{:?}\",", "        println!(\n            \"{:?}\\t{:.6?}\",", ["C20"])
m("c14-reservations-retain-nonzero", S + "data_link_management_message.rs", "        let (data, reservations) = many_m_n::<_, _, _, _, 4>(1, SlotReservation::parse)(data)?;\n", "        let (data, reservations) = many_m_n::<_, _, _, _, 4>(1, SlotReservation::parse)(data)?;\n        let mut reservations = reservations;\n        reservations.retain(|r| r.offset != 0);\n", ["C14", "C01"])
m("c07-payload-must-be-utf8", SS, "    let (data, ais_data) = take_until(\",\")(data)?;", "    let (data, ais_data) = verify(take_until(\",\"), |p: &[u8]| lib::std::str::from_utf8(p).is_ok())(data)?;", ["C07", "C08"])
m("c18-rot-rate-cfg-formula", S + "navigation.rs", "            -126..=126 => Some((self.raw as f32 / 4.733) * (self.raw as f32 / 4.733)),", "            #[cfg(feature = \"std\")]\n            -126..=126 => Some((self.raw as f32 / 4.733) * (self.raw as f32 / 4.733)),\n            #[cfg(not(feature = \"std\"))]\n            -126..=126 => Some((self.raw as f32 * self.raw as f32) * (1.0 / (4.733 * 4.733))),", ["C18"])
n("n-c11-heading-ge-via-unwrap-or-default", S + "static_and_voyage_related_data.rs", "            (data, Dte::default())", "            (data, None::<Dte>.unwrap_or_default())", ["C14", "C12", "C04"])
m("c12-reverse-54-55", S + "types.rs", "AntiPollutionEquipment => 54,", "AntiPollutionEquipment => 55,", ["C12"])
m("c12-epfd-15", S + "types.rs", "            15 => None,\n            _ => Some(Self::Unknown(data)),", "            _ => Some(Self::Unknown(data)),", ["C12"])
m("c12-navaid-swap", S + "aid_to_navigation_report.rs", "9 => Some(Self::BeaconCardinalN),\n            10 => Some(Self::BeaconCardinalE),", "9 => Some(Self::BeaconCardinalE),\n            10 => Some(Self::BeaconCardinalN),", ["C12"])
# ---- C14
m("c14-many-1-3", S + "binary_acknowledge.rs", "many_m_n(1, 4, Acknowledgement::parse)", "many_m_n(1, 3, Acknowledgement::parse)", ["C14"])
m("c14-many-0-4", S + "data_link_management_message.rs", "many_m_n(1, 4, SlotReservation::parse)", "many_m_n(0, 4, SlotReservation::parse)", ["C14"])
m("c14-t12-lt-12", S + "addressed_safety_related.rs", "if remaining_bits < 6 {", "if remaining_bits < 12 {", ["C14"])
m("c14-t15-ge-13", S + "interrogation.rs", "let (data, slot_offset) = if remaining_bits(data) >= 12 {", "let (data, slot_offset) = if remaining_bits(data) >= 21 {", ["C14", "C04"])
m("c14-t24-min7", S + "static_data_report.rs", "take_bits::<_, u8, _, _>(lib::std::cmp::min(remaining_bits(data), 7))(data)?", "take_bits::<_, u8, _, _>(7usize)(data)?", ["C14"])
# ---- C10 / C11
m("c10-lon-60000", S + "navigation.rs", "_ => Some(data as f32 / 600_000.0),\n    }\n}\n\npub fn parse_latitude", "_ => Some(data as f32 / 60_000.0),\n    }\n}\n\npub fn parse_latitude", ["C10"])
m("c10-lat-27-to-26", S + "position_report.rs", "signed_i32(data, 27), parse_latitude)(data)?;\n        let (data, course_over_ground) = map(take_bits(12u16), parse_cog)(data)?;", "signed_i32(data, 26), parse_latitude)(data)?;\n        let (data, course_over_ground) = map(take_bits(13u16), parse_cog)(data)?;", ["C04", "C10"])
m("c10-sar-speed-div10", S + "standard_aircraft_position_report.rs", "_ => Some(data as f32),", "_ => Some(data as f32 / 10.0),", ["C10"])
m("c10-draught-undivided", S + "static_and_voyage_related_data.rs", "raw_draught as f32 / 10.0", "raw_draught as f32", ["C10"])
m("c10-sign-branch-inverted", S + "parsers.rs", "            0 => num | mask,\n            _ => !mask & num,", "            0 => !mask & num,\n            _ => num | mask,", ["C10", "C04"])
m("c11-cog-360", S + "navigation.rs", "3600 => None,", "360 => None,", ["C11"])
m("c11-minsec-61", S + "parsers.rs", "60 => None,", "61 => None,", ["C11"])
m("c11-altitude-4094", S + "standard_aircraft_position_report.rs", "4095 => None,       // Altitude not available\n        4094 => Some(4094), // 4094 meters or higher", "4094 => None,       // Altitude not available\n        4095 => Some(4094), // 4094 meters or higher", ["C11"])
m("c11-revert-F5", None, "selftest/reverts/F5.patch", None, ["C11"])
m("c11-slot-offset-sentinel", S + "interrogation.rs", "if slot_offset == 0 {", "if slot_offset <= 1 {", ["C11"])
# ---- C13
m("c13-plus-65", S + "parsers.rs", "    #[cfg(any(feature = \"std\", feature = \"alloc\"))]\n    match data {\n        0..=31 => Ok(data + 64),", "    #[cfg(any(feature = \"std\", feature = \"alloc\"))]\n    match data {\n        0..=31 => Ok(data + 65),", ["C13"])
m("c13-no-at-trim", S + "parsers.rs", "val.trim_start()\n                        .trim_end_matches('@')\n                        .trim_end()\n                        .to_string(),", "val.trim_start()\n                        .trim_end()\n                        .to_string(),", ["C13"])
m("c13-size-div-8", S + "parsers.rs", "let char_count = size / 6;", "let char_count = size / 8;", ["C04", "C14"])
# ---- C15
m("c15-spare-2-bits", S + "binary_addressed.rs", "let (data, _spare) = take_bits::<_, u8, _, _>(1u8)(data)?;\n        let (data, dac) = take_bits(10u16)(data)?;\n        let (data, fid) = take_bits(6u8)(data)?;", "let (data, _spare) = take_bits::<_, u8, _, _>(2u8)(data)?;\n        let (data, dac) = take_bits(10u16)(data)?;\n        let (data, fid) = take_bits(5u8)(data)?;", ["C04"])
m("c15-skip-first-data-byte", S + "binary_broadcast_message.rs", "        #[cfg(any(feature = \"std\", feature = \"alloc\"))]\n        let data_owned = data.0.into();", "        #[cfg(any(feature = \"std\", feature = \"alloc\"))]\n        let data_owned = data.0[data.0.len().min(1)..].into();", ["C15"])
m("c15-fid-7-bits-misaligned", S + "binary_broadcast_message.rs", "let (data, fid) = take_bits(6u8)(data)?;", "let (data, fid) = take_bits(7u8)(data)?;", ["C15", "C04"])
# ---- C16
m("c16-submessage-swapped", S + "radio_status.rs", "2 | 4 | 6 => {", "3 | 5 | 7 => {", ["C16"])
m("c16-slotnumber-receivedstations-swapped", S + "radio_status.rs", "Ok((data, SubMessage::SlotNumber(slot_number)))", "Ok((data, SubMessage::ReceivedStations(slot_number)))", ["C16"])
m("c16-itdma-increment-12", S + "radio_status.rs", "let (data, slot_increment) = take_bits(13u16)(data)?;\n        let (data, num_slots) = take_bits(3u8)(data)?;", "let (data, slot_increment) = take_bits(12u16)(data)?;\n        let (data, num_slots) = take_bits(4u8)(data)?;", ["C16"])
m("c16-type3-sotdma", S + "radio_status.rs", "1 | 2 | 4 | 11 | 9 => SotdmaMessage::parse(input),\n        3 => ItdmaMessage::parse(input),", "1 | 2 | 4 | 11 | 9 | 3 => SotdmaMessage::parse(input),", ["C16"])
m("c16-type18-selector-swapped", S + "standard_class_b_position_report.rs", "0 => SotdmaMessage::parse(data)?,\n            1 => ItdmaMessage::parse(data)?,", "1 => SotdmaMessage::parse(data)?,\n            0 => ItdmaMessage::parse(data)?,", ["C16"])
# ---- C08
m("c08-fill-le-6", SS, "|val| *val < 6", "|val| *val <= 6", ["C08"])
m("c08-hex-fff", SS, "val <= &0xff", "val <= &0xfff", ["C08"])
m("c08-hash-start", SS, 'alt((tag("!"), tag("$")))', 'alt((tag("!"), tag("$"), tag("#")))', ["C08"])
m("c08-report-2-bytes", SS, "map(take(3u8), Into::into)(data)?;", "map(take(2u8), Into::into)(data)?;", ["C08"])
m("c08-tagblock-mandatory", SS, 'opt(delimited(tag("\\\\"), take_until("\\\\"), tag("\\\\")))(data)?;', 'delimited(tag("\\\\"), take_until("\\\\"), tag("\\\\"))(data)?;', ["C08"])
m("c08-id-mandatory", SS, "let (data, message_id) = opt(parse_u8_digit)(data)?;", "let (data, message_id) = map(parse_u8_digit, Some)(data)?;", ["C08"])
n("n-c02-xor-loop", SS, "        let received_checksum = sentence.iter().fold(0u8, |acc, &item| acc ^ item);", "        let mut received_checksum = 0u8;\n        for item in sentence {\n            received_checksum ^= *item;\n        }", ["C02", "C01"])
n("n-c05-clear-instead-of-default", SS, "                self.data = AisRawData::default();", "                self.data.clear();", ["C05", "C06", "C17"])
n("n-c08-fill-le-5", SS, "|val| *val < 6", "|val| *val <= 5", ["C08"])
# ---- C05 / C06 / C17
m("c06-revert-F1", SS, "ais_sentence.fragment_number.checked_sub(self.fragment_number) != Some(1)", "ais_sentence.fragment_number - self.fragment_number != 1", ["C06"])
m("c06-revert-F2", SS, "                // The group has been delivered; nothing may continue it\n                self.fragment_number = 0;\n", "", ["C06"])
m("c06-revert-F8", SS, "        // Only a fragment whose payload has been stored advances the group\n        self.fragment_number = ais_sentence.fragment_number;\n        Ok(())", "        Ok(())", ["C06"])
m("c06-revert-F8b", SS, "        #[cfg(any(feature = \"std\", feature = \"alloc\"))]\n        self.data.extend_from_slice(&ais_sentence.data);", "        self.fragment_number = ais_sentence.fragment_number;\n        #[cfg(any(feature = \"std\", feature = \"alloc\"))]\n        self.data.extend_from_slice(&ais_sentence.data);", ["C06"])
m("c06-id-check-removed", SS, "        if self.message_id != ais_sentence.message_id {\n            return Err(\"Message ID out of sequence\".into());\n        }\n", "", ["C06"])
m("c05-is-fragment-gt-1", SS, "self.num_fragments != 1", "self.num_fragments > 1", ["C05"])
m("c05-data-not-cleared", SS, "                self.fragment_number = 0;\n                self.data = AisRawData::default();\n            }", "                self.fragment_number = 0;\n            }", ["C05", "C06"])
m("c05-incomplete-to-some", SS, "            AisFragments::Incomplete(_) => None,", "            AisFragments::Incomplete(s) => Some(s),", ["C05"])
m("c17-reset-on-unfragmented", SS, "            if decode {\n                let unarmored", "            if !ais_sentence.is_fragment() {\n                self.fragment_number = 0;\n            }\n            if decode {\n                let unarmored", ["C17"])
m("c05-fill-from-first", SS, "messages::unarmor(&ais_sentence.data, ais_sentence.fill_bit_count as usize)?;", "messages::unarmor(&ais_sentence.data, ais_sentence.num_fragments as usize)?;", ["C05"])
m("c06-accept-gap", SS, ".checked_sub(self.fragment_number) != Some(1)", ".checked_sub(self.fragment_number).map_or(true, |d| d == 0 || d > 2)", ["C06"])
n("n-c06-wrapping-form", SS, "if ais_sentence.fragment_number.checked_sub(self.fragment_number) != Some(1) {", "if self.fragment_number == u8::MAX || ais_sentence.fragment_number != self.fragment_number + 1 {", ["C05", "C06", "C17"])
# ---- C02 / C07 / C19
m("c02-low-nibble", SS, "if expected_checksum != received_checksum {", "if expected_checksum & 0x0f != received_checksum & 0x0f {", ["C02"])
m("c02-only-when-decoding", SS, "        Self::check_checksum(data, checksum)?;", "        if decode {\n            Self::check_checksum(data, checksum)?;\n        }", ["C02"])
m("c02-skip-for-fragments", SS, "        Self::check_checksum(data, checksum)?;\n        if ais_sentence.has_more() {", "        if !ais_sentence.is_fragment() {\n            Self::check_checksum(data, checksum)?;\n        }\n        if ais_sentence.has_more() {", ["C02"])
m("c02-fold-from-1", SS, "sentence.iter().fold(0u8, |acc, &item| acc ^ item)", "sentence.iter().fold(1u8, |acc, &item| acc ^ item)", ["C02"])
m("c02-skip-first-byte", SS, "sentence.iter().fold(0u8, |acc, &item| acc ^ item)", "sentence.iter().skip(1).fold(0u8, |acc, &item| acc ^ item)", ["C02"])
m("c02-expected-found-swapped", SS, "                expected: expected_checksum,\n                found: received_checksum,", "                expected: received_checksum,\n                found: expected_checksum,", ["C02"])
m("c02-raw-after-talker", SS, "    let (data, raw) = peek(take_until(\"*\"))(data)?;\n    let (data, msg) = terminated(parse_ais_sentence, tag(\"*\"))(data)?;", "    let (_, raw) = peek(take_until(\"*\"))(&data[data.len().min(2)..])?;\n    let (data, msg) = terminated(parse_ais_sentence, tag(\"*\"))(data)?;", ["C02"])
m("c02-check-after-reset", SS, "        Self::check_checksum(data, checksum)?;\n        if ais_sentence.has_more() {\n            if ais_sentence.fragment_number == 1 {\n                self.message_id = ais_sentence.message_id;\n                self.fragment_number = 0;\n                self.data = AisRawData::default();\n            }", "        if ais_sentence.has_more() {\n            if ais_sentence.fragment_number == 1 {\n                self.message_id = ais_sentence.message_id;\n                self.fragment_number = 0;\n                self.data = AisRawData::default();\n            }\n            Self::check_checksum(data, checksum)?;", ["C02"])
m("c07-ab-as-ad", SS, "b\"AB\" => Self::AB,", "b\"AB\" => Self::AD,", ["C07"])
m("c07-fill-from-id", SS, "            fill_bit_count,\n            message_type,", "            fill_bit_count: message_id.unwrap_or(fill_bit_count),\n            message_type,", ["C07"])
m("c07-channel-from-payload", SS, "let (_, channel) = opt(anychar)(channel_bytes)?;\n    let (data, _) = tag(\",\")(data)?;\n    let (data, ais_data) = take_until(\",\")(data)?;", "let (data, _) = tag(\",\")(data)?;\n    let (data, ais_data) = take_until(\",\")(data)?;\n    let (_, channel) = opt(anychar)(if channel_bytes.is_empty() { channel_bytes } else { ais_data })?;", ["C07"])
m("c07-decode-guards-swap", SS, "            if ais_sentence.is_fragment() {\n                self.verify_and_extend_data(&ais_sentence)?;", "            if ais_sentence.is_fragment() && decode {\n                self.verify_and_extend_data(&ais_sentence)?;", ["C07", "C05"])
m("c19-5-bits", S + "parsers.rs", "pub fn message_type_bits(data: (&[u8], usize)) -> IResult<(&[u8], usize), u8> {\n    take_bits(6u8)(data)", "pub fn message_type_bits(data: (&[u8], usize)) -> IResult<(&[u8], usize), u8> {\n    take_bits(5u8)(data)", ["C19", "C09"])
# ---- C03
MM = S + "mod.rs"
m("c03-alphabet-120", MM, "96..=119 => byte - 56,", "96..=120 => byte - 56,", ["C03"])
m("c03-minus-55", MM, "96..=119 => byte - 56,", "96..=119 => byte - 55,", ["C03"])
m("c03-min-dropped", MM, "(8 - bits_in_final_byte) + lib::std::cmp::min(fill_bits, bits_in_final_byte);", "(8 - bits_in_final_byte) + fill_bits;", ["C03"])
m("c03-shl-1", MM, "        } << 2;", "        } << 1;", ["C03"])
m("c03-next-byte-shift", MM, "output[offset_byte + 1] |= unarmored << (8 - offset_bit);", "output[offset_byte + 1] |= unarmored << (7 - offset_bit);", ["C03"])
m("c03-revert-F3", None, "selftest/reverts/F3.patch", None, ["C03"])
m("c03-len-floor", MM, "let byte_count = (bit_count / 8) + ((bit_count % 8 != 0) as usize);", "let byte_count = (bit_count / 8) + 1;", ["C03"])
m("c03-second-mask-off-by-one", MM, "*byte &= 0xffu8 << (fill_bits - bits_in_final_byte);", "*byte &= 0xffu8 << (fill_bits - bits_in_final_byte + 1);", ["C03"])
n("n-c03-enumerate", MM, ["    let mut offset = 0;\n    for byte in data {", "        offset += 6;\n    }"], ["    for (i, byte) in data.iter().enumerate() {\n        let offset = i * 6;", "    }"], ["C03", "C01"])
n("n-c03-fill-ge", MM, "if fill_bits > bits_in_final_byte {", "if fill_bits >= bits_in_final_byte {", ["C03"])
# ---- C01
m("c01-alphabet-47", MM, "48..=87 => byte - 48,", "47..=87 => byte - 48,", ["C01"])
m("c01-bool-from-2-bits", S + "aid_to_navigation_report.rs", "let (data, off_position) = map(take_bits(1u8), u8_to_bool)(data)?;\n        let (data, regional_reserved) = take_bits(8u8)(data)?;", "let (data, off_position) = map(take_bits(2u8), u8_to_bool)(data)?;\n        let (data, regional_reserved) = take_bits(7u8)(data)?;", ["C01"])
m("c01-messagelist-cap-1", S + "interrogation.rs", "pub type MessageList = lib::std::vec::Vec<Message, 3>;", "pub type MessageList = lib::std::vec::Vec<Message, 1>;", ["C01"])
m("c01-take-10-into-u8-at-7", S + "base_station_report.rs", "let (data, epfd_type) = map(take_bits(4u8), EpfdType::parse)(data)?;\n        let (data, _spare) = take_bits::<_, u8, _, _>(10u8)(data)?;", "let (data, epfd_type) = map(take_bits(4u8), EpfdType::parse)(data)?;\n        let (data, _spare0) = take_bits::<_, u8, _, _>(5u8)(data)?;\n        let (data, _spare) = take_bits::<_, u8, _, _>(10u8)(data)?;", ["C01"])
m("c01-revert-F1", SS, "ais_sentence.fragment_number.checked_sub(self.fragment_number) != Some(1)", "ais_sentence.fragment_number - self.fragment_number != 1", ["C01"])
m("c01-revert-F3", None, "selftest/reverts/F3.patch", None, ["C01"])
m("c01-revert-F4", None, "selftest/reverts/F4.patch", None, ["C01"])
m("c01-signed-len-32", S + "long_range_ais_broadcast.rs", "|data| signed_i32(data, 17),", "|data| signed_i32(data, 32),", ["C01"])
m("c01-remaining-bits-wrong-order", S + "parsers.rs", "data.0.len() * 8 - data.1", "data.0.len() * 8 - data.1 - 1", ["C01"])
n("n-c01-plus-one-form", SS, "if ais_sentence.fragment_number.checked_sub(self.fragment_number) != Some(1) {", "if ais_sentence.fragment_number != self.fragment_number + 1 {", ["C01", "C05", "C06"])
n("n-c01-checked-form", S + "parsers.rs", "data.0.len() * 8 - data.1", "(data.0.len() * 8).saturating_sub(data.1)", ["C01"])
# ---- C18
NN = S + "nom_noalloc.rs"
m("c18-local-many-le", NN, "if count < min {", "if count <= min {", ["C18"])
m("c18-acklist-cap-3", S + "safety_related_acknowledgment.rs", ["many_m_n::<_, _, _, _, 4>(1, Acknowledgement::parse)", "pub type AcknowledgementList = lib::std::vec::Vec<Acknowledgement, 4>;"], ["many_m_n::<_, _, _, _, 3>(1, Acknowledgement::parse)", "pub type AcknowledgementList = lib::std::vec::Vec<Acknowledgement, 3>;"], ["C18"])
m("c18-silent-truncation", S + "binary_addressed.rs", "        let data_owned = data.0.try_into().map_err(|_| {\n            nom::Err::Failure(nom::error::Error::new(\n                data,\n                nom::error::ErrorKind::TooLarge,\n            ))\n        })?;", "        let data_owned = data.0[..data.0.len().min(MAX_DATA_SIZE_BYTES)].try_into().map_err(|_| {\n            nom::Err::Failure(nom::error::Error::new(\n                data,\n                nom::error::ErrorKind::TooLarge,\n            ))\n        })?;", ["C18"])
m("c18-cfg-extra-bit", S + "utc_date_inquiry.rs", "let (data, _spare2) = take_bits::<_, u8, _, _>(2u8)(data)?;", "#[cfg(feature = \"std\")]\n        let (data, _spare2) = take_bits::<_, u8, _, _>(2u8)(data)?;\n        #[cfg(not(feature = \"std\"))]\n        let (data, _spare2) = take_bits::<_, u8, _, _>(10u8)(data)?;", ["C18"])
m("c18-max-data-100", S + "binary_broadcast_message.rs", "const MAX_DATA_SIZE_BYTES: usize = 119;", "const MAX_DATA_SIZE_BYTES: usize = 100;", ["C18"])
m("c18-noalloc-sixbit-63", S + "parsers.rs", "    #[cfg(all(not(feature = \"std\"), not(feature = \"alloc\")))]\n    match data {\n        0..=31 => Ok(data + 64),\n        32..=63 => Ok(data),", "    #[cfg(all(not(feature = \"std\"), not(feature = \"alloc\")))]\n    match data {\n        0..=31 => Ok(data + 64),\n        32..=62 => Ok(data),", ["C18"])
m("c18-revert-F4", None, "selftest/reverts/F4.patch", None, ["C18"])
# ---- C20
BB = "src/bin/aisparser.rs"
m("c20-revert-F7", None, "selftest/reverts/F7.patch", None, ["C20"])
n("n-c20-for-loop", BB, ["        handle\n            .split(b'\\n')\n            .map(|line| line.unwrap())\n            .for_each(|line| {\n", "                });\n            });\n"], ["        for line in handle.split(b'\\n').map(|line| line.unwrap()) {\n", "                });\n            }\n"], ["C20"])
m("c20-for-loop-break-on-error", BB, ["        handle\n            .split(b'\\n')\n            .map(|line| line.unwrap())\n            .for_each(|line| {\n                parse_nmea_line(&mut parser, &line).unwrap_or_else(|err| {", "                });\n            });\n"], ["        for line in handle.split(b'\\n').map(|line| line.unwrap()) {\n                if let Err(err) = parse_nmea_line(&mut parser, &line) {", "                    break;\n                }\n            }\n"], ["C20"])
n("n-c20-map-err-form", BB, "parse_nmea_line(&mut parser, &line).unwrap_or_else(|err| {", "let _ = parse_nmea_line(&mut parser, &line).map_err(|err| {", ["C20"])
m("c20-unwrap-line-result", BB, ["                parse_nmea_line(&mut parser, &line).unwrap_or_else(|err| {\n                    eprintln!(\n                        \"{:?}\\t{:?}\",\n                        lib::std::string::String::from_utf8_lossy(&line),\n                        err\n                    );\n                });"], ["                parse_nmea_line(&mut parser, &line).unwrap();"], ["C20"])
m("c20-print-on-incomplete", BB, "    if let AisFragments::Complete(sentence) = sentence {", "    let sentence = match sentence { AisFragments::Complete(s) => AisFragments::Complete(s), AisFragments::Incomplete(s) => AisFragments::Complete(s) };\n    if let AisFragments::Complete(sentence) = sentence {", ["C20"])
m("c20-take-100", BB, "            .split(b'\\n')\n", "            .split(b'\\n')\n            .take(100)\n", ["C20"])
m("c20-err-to-stdout", BB, "                    eprintln!(", "                    println!(", ["C20"])
m("c20-exit-on-error", BB, "                        err\n                    );", "                        err\n                    );\n                    std::process::exit(1);", ["C20"])
m("c20-split-on-cr", BB, ".split(b'\\n')", ".split(b'\\r')", ["C20"])
# ---- neutral edits
n("n-t10-tuple-combinator", S + "utc_date_inquiry.rs", "        let (data, message_type) = take_bits(6u8)(data)?;\n        let (data, repeat_indicator) = take_bits(2u8)(data)?;", "        let (data, (message_type, repeat_indicator)) = nom::sequence::tuple((take_bits(6u8), take_bits(2u8)))(data)?;", ["C04", "C09", "C01"])
n("n-t16-gt-51", S + "assignment_mode_command.rs", "if remaining_bits >= 52 {", "if remaining_bits > 51 {", ["C04", "C14"])
n("n-t12-error-kind", S + "addressed_safety_related.rs", "nom::error::ErrorKind::Eof,", "nom::error::ErrorKind::Digit,", ["C04", "C14", "C09"])
n("n-struct-literal-order", S + "utc_date_inquiry.rs", "                message_type,\n                repeat_indicator,", "                repeat_indicator,\n                message_type,", ["C04", "C09"])


def run(cmd, **kw):
    try:
        return subprocess.run(cmd, shell=True, stdout=subprocess.PIPE, stderr=subprocess.STDOUT, text=True, timeout=400, **kw)
    except subprocess.TimeoutExpired as e:
        class R:
            returncode = 124
            stdout = "TIMEOUT " + str(e.stdout)[-200:]
        return R()


def apply(tmp, file, old, new):
    if file is None:
        r = run("cd %s && git apply /verif/%s" % (tmp, old))
        return r.returncode == 0, r.stdout
    p = os.path.join(tmp, file)
    s = open(p).read()
    pairs = list(zip(old, new)) if isinstance(old, list) else [(old, new)]
    for o, n_ in pairs:
        if s.count(o) < 1:
            return False, "pattern not found in " + file
        s = s.replace(o, n_, 1)
    open(p, "w").write(s)
    return True, ""


def one_case(kind, name, file, old, new, props, with_tests, tier):
    tmp = tempfile.mkdtemp(prefix="aismut.")
    vdir = "/verif/.work/selftest_out/mut_%s" % re.sub(r"[^A-Za-z0-9_.-]", "_", name)
    os.makedirs(vdir + "/evidence", exist_ok=True)
    shutil.copy("/verif/known_findings.txt", vdir + "/known_findings.txt")
    try:
        run("cd /repo && git archive HEAD | tar -x -C %s && cp -r .git %s/.git && cp Cargo.lock %s/Cargo.lock" % (tmp, tmp, tmp))
        ok, msg = apply(tmp, file, old, new)
        if not ok:
            return (name, "SETUP-FAIL " + msg)
        if with_tests:
            r = run("cd %s && CARGO_TARGET_DIR=%s/target cargo test --offline 2>&1 | grep -E 'test result|error(\\[|:)' | head -3" % (tmp, tmp))
            tests = r.stdout.strip().replace("\n", " | ")
        else:
            tests = ""
        line = []
        for pid in props:
            r = run("AIS_REPO=%s /verif/bin/check %s %s" % (tmp, pid, tier), env=dict(os.environ, VERIF_DIR=vdir))
            if "cannot build /repo" in r.stdout:
                line.append("%s:BUILD-FAIL" % pid)
                continue
            fired = "VIOLATION property=%s" % pid in r.stdout
            keys = re.findall(r"key=(\S+)", r.stdout)[:2]
            if kind == "mutant":
                line.append("%s:%s %s" % (pid, "FIRED" if fired else "MISSED", keys[0][:90] if keys else ""))
            else:
                line.append("%s:%s %s" % (pid, "FALSE-ALARM" if fired else "silent", keys[0][:90] if keys else ""))
        return (name, "; ".join(line) + ("  [" + tests + "]" if tests else ""))
    finally:
        shutil.rmtree(tmp, ignore_errors=True)
        shutil.rmtree(vdir, ignore_errors=True)


def main():
    from concurrent.futures import ThreadPoolExecutor
    args = [a for a in sys.argv[1:] if not a.startswith("--")]
    with_tests = "--tests" in sys.argv
    jobs = 1
    for a in sys.argv[1:]:
        if a.startswith("--jobs="):
            jobs = int(a.split("=", 1)[1])
    tier = "quick"
    cases = []
    for kind, lst in (("mutant", M), ("neutral", N)):
        for (name, file, old, new, props) in lst:
            if args and not any(a in name for a in args):
                continue
            cases.append((kind, name, file, old, new, props, with_tests, tier))
    results = []
    with ThreadPoolExecutor(max_workers=jobs) as ex:
        for res in ex.map(lambda c: one_case(*c), cases):
            results.append(res)
            print(res[0], "=>", res[1], flush=True)
    bad = [r for r in results if "MISSED" in r[1] or "FALSE-ALARM" in r[1] or "SETUP-FAIL" in r[1] or "BUILD-FAIL" in r[1]]
    print("%d cases, %d problems" % (len(results), len(bad)))
    return 1 if bad else 0


if __name__ == "__main__":
    os.makedirs("/verif/.work/selftest_out/evidence", exist_ok=True)
    shutil.copy("/verif/known_findings.txt", "/verif/.work/selftest_out/known_findings.txt")
    sys.exit(main())
