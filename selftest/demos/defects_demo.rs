// Demonstrations of defects F1-F7 (scratch only; never committed to /repo)
use ais::messages::{self, AisMessage};
use ais::sentence::{AisFragments, AisParser};

struct Bits(Vec<u8>, usize);
impl Bits {
    fn new() -> Self { Bits(Vec::new(), 0) }
    fn put(&mut self, val: u64, w: usize) {
        for i in (0..w).rev() {
            let bit = ((val >> i) & 1) as u8;
            if self.1 % 8 == 0 { self.0.push(0); }
            let idx = self.1 / 8;
            self.0[idx] |= bit << (7 - self.1 % 8);
            self.1 += 1;
        }
    }
}

fn cksum(body: &str) -> String {
    let c = body.bytes().fold(0u8, |a, b| a ^ b);
    format!("!{}*{:02X}", body, c)
}

#[test]
fn f6_type15_second_station() {
    let mut b = Bits::new();
    b.put(15, 6); b.put(0, 2); b.put(111111111, 30); b.put(0, 2);
    b.put(222222222, 30); b.put(5, 6); b.put(100, 12); b.put(0, 2); b.put(3, 6); b.put(200, 12); b.put(0, 2);
    b.put(333333333, 30); b.put(4, 6); b.put(300, 12); b.put(0, 2);
    assert_eq!(b.1, 160);
    match messages::parse(&b.0).unwrap() {
        AisMessage::Interrogation(i) => {
            assert_eq!(i.stations.len(), 2);
            assert_eq!(i.stations[1].mmsi, 333333333);
            assert_eq!(i.stations[1].messages[0].message_type, 4);
            assert_eq!(i.stations[1].messages[0].slot_offset, Some(300));
        }
        _ => panic!(),
    }
}

#[test]
fn f1_fragment_number_underflow() {
    let mut p = AisParser::new();
    let _ = p.parse(cksum("AIVDM,9,1,1,A,15M,0").as_bytes(), false);
    let _ = p.parse(cksum("AIVDM,9,2,1,A,15M,0").as_bytes(), false);
    let _ = p.parse(cksum("AIVDM,9,3,1,A,15M,0").as_bytes(), false);
    // fragment 2 again: 2 - 3 underflows
    let r = p.parse(cksum("AIVDM,9,2,1,A,15M,0").as_bytes(), false);
    assert!(r.is_err());
}

#[test]
fn f2_stale_state_after_delivery() {
    let mut p = AisParser::new();
    assert!(matches!(p.parse(cksum("AIVDM,2,1,5,A,15M,0").as_bytes(), false), Ok(AisFragments::Incomplete(_))));
    assert!(matches!(p.parse(cksum("AIVDM,2,2,5,A,177,0").as_bytes(), false), Ok(AisFragments::Complete(_))));
    // a lone fragment 3 of 3 with the same id must not be accepted as continuing the delivered group
    let r = p.parse(cksum("AIVDM,3,3,5,A,177,0").as_bytes(), false);
    assert!(r.is_err(), "{:?}", r);
}

#[test]
fn f3_unarmor_empty_with_fill() {
    for fill in 0..6 {
        let r = messages::unarmor(b"", fill);
        assert!(r.is_ok());
        assert_eq!(r.unwrap().len(), 0);
    }
}

#[test]
fn f5_type27_sentinels() {
    let mut b = Bits::new();
    b.put(27, 6); b.put(0, 2); b.put(123456789, 30); b.put(0, 1); b.put(0, 1); b.put(0, 4);
    b.put(108600, 18); b.put(54600, 17); b.put(10, 6); b.put(90, 9); b.put(0, 1); b.put(0, 1);
    assert_eq!(b.1, 96);
    match messages::parse(&b.0).unwrap() {
        AisMessage::LongRangeAisBroadcastMessage(m) => {
            assert_eq!(m.longitude, None);
            assert_eq!(m.latitude, None);
        }
        _ => panic!(),
    }
    // an ordinary position still decodes: 10 deg E = 6000 tenths of a minute
    let mut b = Bits::new();
    b.put(27, 6); b.put(0, 2); b.put(123456789, 30); b.put(0, 1); b.put(0, 1); b.put(0, 4);
    b.put(6000, 18); b.put((-3000i64 as u64) & 0x1ffff, 17); b.put(10, 6); b.put(90, 9); b.put(0, 1); b.put(0, 1);
    match messages::parse(&b.0).unwrap() {
        AisMessage::LongRangeAisBroadcastMessage(m) => {
            assert!((m.longitude.unwrap() - 10.0).abs() < 1e-4);
            assert!((m.latitude.unwrap() + 5.0).abs() < 1e-4);
        }
        _ => panic!(),
    }
}
