// F8 (no-alloc build): a fragment that overflows the 384-byte reassembly buffer is rejected, but the
// stored fragment number has already been advanced, so the next fragment is accepted and a message
// with a missing fragment is delivered.
use ais::sentence::{AisFragments, AisParser};

fn cksum(body: &str) -> String {
    let c = body.bytes().fold(0u8, |a, b| a ^ b);
    format!("!{}*{:02X}", body, c)
}

#[test]
fn f8_capacity_error_must_not_advance_the_group() {
    let mut p = AisParser::new();
    let a = "1".repeat(300);
    let b = "2".repeat(300);
    assert!(matches!(p.parse(cksum(&format!("AIVDM,3,1,7,A,{},0", a)).as_bytes(), false), Ok(AisFragments::Incomplete(_))));
    // 600 bytes do not fit 384: rejected
    assert!(p.parse(cksum(&format!("AIVDM,3,2,7,A,{},0", b)).as_bytes(), false).is_err());
    // the group is broken: fragment 3 must not be delivered as a message made of fragments 1 and 3
    let r = p.parse(cksum("AIVDM,3,3,7,A,333,0").as_bytes(), false);
    assert!(r.is_err(), "{:?}", r.map(|f| match f { AisFragments::Complete(s) => s.data.len(), AisFragments::Incomplete(s) => s.data.len() }));
}
