#!/bin/bash
# re-evaluates every recorded seed against the current checks (4 at a time) and prints a matrix
cd /verif
ls seeded | xargs -P 4 -I{} sh -c 'tools/seed_eval.sh /verif/seeded/{} {} 2>&1 | grep -E "^fired:|demo mutated|suite:" | sed "s/^/{} /"'
