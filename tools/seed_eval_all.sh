#!/bin/bash
# re-evaluates every recorded seed against the current checks and prints a matrix
cd /verif
for d in seeded/*/; do
  n=$(basename $d)
  tools/seed_eval.sh /verif/seeded/$n $n 2>&1 | grep "^fired:" | sed "s/^/$n /"
done
