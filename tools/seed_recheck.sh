#!/bin/bash
# seed_recheck.sh <name>: re-runs the checks against a recorded seed (patch applied to a scratch copy of
# /repo HEAD) without repeating the cargo confirmation recorded in its meta.json.  The checks run are the
# seed's target property plus every check that fired at its last evaluation (ALL=1: all twenty).
set -u
NAME=$1
OUT=/verif/seeded/$NAME
TMP=$(mktemp -d /tmp/seedre.XXXXXX)
trap 'rm -rf "$TMP"' EXIT
(cd /repo && git archive HEAD | tar -x -C "$TMP" && cp Cargo.lock "$TMP/Cargo.lock")
cd "$TMP"; git init -q . >/dev/null 2>&1
if ! git apply "$OUT/patch.diff"; then echo "$NAME PATCH DOES NOT APPLY"; exit 1; fi
TGT=${NAME%%-*}
if [ "${ALL:-0}" = 1 ]; then CHECKS="C01 C02 C03 C04 C05 C06 C07 C08 C09 C10 C11 C12 C13 C14 C15 C16 C17 C18 C19 C20";
else CHECKS=$(python3 -c "import json;m=json.load(open('$OUT/meta.json'));print(' '.join(sorted(set(['$TGT']+m.get('checks_fired',[])))))"); fi
export VERIF_DIR=/verif/.work/selftest_out/$NAME; mkdir -p $VERIF_DIR/evidence; cp /verif/known_findings.txt $VERIF_DIR/known_findings.txt
FIRED=""
for c in $CHECKS; do
  r=$(AIS_REPO=$TMP timeout 900 /verif/bin/check $c quick 2>&1)
  if echo "$r" | grep -q "^VIOLATION property=$c"; then FIRED="$FIRED $c"; fi
  if echo "$r" | grep -q "facts-unavailable\|internal-error"; then echo "$NAME $c BROKEN: $(echo "$r" | grep -m1 key=)"; fi
done
python3 - "$OUT" "$FIRED" "$CHECKS" <<'PY'
import json,sys
out,fired,checks=sys.argv[1:4]
m=json.load(open(out+'/meta.json'))
old=set(m.get("checks_fired",[]))
ran=set(checks.split())
m["checks_fired"]=sorted((old-ran)|set(fired.split()))
m["rechecked_with"]="tools/seed_recheck.sh (checks run: %s)" % checks
json.dump(m,open(out+'/meta.json','w'),indent=1)
PY
echo "$NAME fired:$FIRED"
