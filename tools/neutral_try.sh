#!/bin/bash
# quick: apply neutral/<name> and run given checks
n=$1; shift
D=/tmp/nt_$n; rm -rf $D; mkdir -p $D; (cd /repo && git archive HEAD) | tar -x -C $D; cp /repo/Cargo.lock $D/; (cd $D && git init -q . && git apply /verif/neutral/$n/patch.diff) || exit 2
for c in "$@"; do AIS_REPO=$D VERIF_DIR=/verif/.work/selftest_out timeout 600 /verif/bin/check $c quick 2>&1 | grep -E "key=|quick:" | head -4 | cut -c1-260; done
rm -rf /tmp/nt_$n
