#!/usr/bin/env python3
"""Regenerates /verif/MANIFEST.json from the table below (keeps it schema-valid)."""
import json, os

TB = ("Trusted: rustc's MIR for the analysed configuration (nightly ad3a598ca, -Zmir-opt-level=0), the transformer "
      "contracts for nom 7.1.3 / heapless 0.7.17 / core written from the pinned sources (DESIGN.md 2.4), and the "
      "reference tables under analysis/aislint/spec. Payloads shorter than 2^28 bytes.")

CLAIMED = {
    "C04": dict(cat="translation_validation", ref="5/C04",
                tech="abstract interpretation of MIR (bit-cursor provenance) + comparison with ITU-R M.1371 layout table",
                text="For every partition of messages::parse (all payload lengths as intervals, all selector values, std+none quick, "
                     "+alloc thorough) every public field's extracted provenance term is compared with the bit range ITU-R M.1371-5 "
                     "assigns to it. Decides field positions/widths/identity for all inputs; value decoders are C10-C16."),
}

NA = {}

def main():
    ids = [json.loads(l)["id"] for l in open("/verif/properties.jsonl")]
    checks = []
    for pid in ids:
        if pid in CLAIMED:
            c = CLAIMED[pid]
            checks.append({
                "property_id": pid,
                "quick_cmd": "bin/check %s quick" % pid,
                "thorough_cmd": "bin/check %s thorough" % pid,
                "evidence_file": "/verif/evidence/%s.json" % pid,
                "replay_cmd_template": "cat {path}",
                "engine": "aislint",
                "level_claimed": {"category": c["cat"], "text": c["text"], "design_ref": c["ref"]},
                "level_note": c.get("note", TB),
                "technique": c["tech"],
            })
    na = [{"property_id": pid, "reason": NA.get(pid, "rule module not built yet (build round in progress); see DESIGN.md section 5")}
          for pid in ids if pid not in CLAIMED]
    m = {
        "version": 1,
        "setup_cmd": "cd /verif/driver && CARGO_NET_OFFLINE=true cargo build --release --offline",
        "hooks": {"guard": "squidpickles_ais_verif (unused)",
                  "enable": "none: the analyser reads the compiler's MIR of the unmodified source (no hooks compiled into /repo)",
                  "baseline_off_cmd": "cd /repo && cargo test --workspace --no-fail-fast --offline",
                  "source_commits": [], "add_only": True},
        "engines": [
            {"name": "aisfacts", "path": "driver/", "serves_properties": [c["property_id"] for c in checks],
             "kind_free_text": "rustc_private driver: dumps resolved, type-checked MIR of /repo per feature configuration as JSON"},
            {"name": "aislint", "path": "analysis/aislint/", "serves_properties": [c["property_id"] for c in checks],
             "kind_free_text": "abstract interpreter over the dumped MIR + extractors + rule modules comparing extracted models with reference tables"},
        ],
        "checks": checks,
        "notes": "Static analysis only: no check executes ais on an input. Known findings: /verif/known_findings.txt.",
        "not_applicable": na,
    }
    json.dump(m, open("/verif/MANIFEST.json", "w"), indent=1)

if __name__ == "__main__":
    main()
