#!/usr/bin/env python3
"""Regenerates /verif/MANIFEST.json from the table below (keeps it schema-valid)."""
import json, os

TB = ("Analysed: every feature combination (std, alloc, neither; std+alloc and the builds without debug assertions "
      "are compared with their counterparts byte for byte and analysed as further configurations when they differ). "
      "Trusted: rustc's MIR for the analysed configuration (nightly ad3a598ca, -Zmir-opt-level=0), the transformer "
      "contracts for nom 7.1.3 / heapless 0.7.17 / core written from the pinned sources (DESIGN.md 2.4), and the "
      "reference tables under analysis/aislint/spec. Payloads shorter than 2^28 bytes.")

CLAIMED = {
    "C04": dict(cat="translation_validation", ref="5/C04",
                tech="abstract interpretation of MIR (bit-cursor provenance) + comparison with ITU-R M.1371 layout table",
                text="For every partition of messages::parse (all payload lengths as intervals, all selector values, the three build "
                     "configurations) every public field's extracted provenance term is compared with the bit range ITU-R M.1371-5 "
                     "assigns to it. Decides field positions/widths/identity for all inputs; value decoders are C10-C16."),
    "C09": dict(cat="translation_validation", ref="5/C09",
                tech="abstract interpretation of MIR: dispatch partition of messages::parse over all 64 type values vs. table",
                text="The switch structure of messages::parse is partitioned over all 64 values of the first six payload bits and all "
                     "payload lengths; each supported value must reach only the named AisMessage variant/struct with message_type = "
                     "bits[0,6), every other value only Err. Exhaustive over the type domain, symbolic in everything else."),
    "C10": dict(cat="translation_validation", ref="5/C10",
                tech="value-set partition of leaf decoders' MIR (LeafMap) + provenance terms vs. scale table",
                text="For every coordinate/speed/course/draught field in every partition: the source is the two's-complement (coordinates) "
                     "or unsigned field of the ITU width, and the decoder's result expression, recovered from MIR over the field's whole "
                     "value range, is raw*scale with the exact rational scale, <=1 cast and <=2 float operations. IEEE-754 itself is trusted."),
    "C11": dict(cat="translation_validation", ref="5/C11",
                tech="value-set partition of leaf decoders' MIR at the call site's range vs. sentinel table",
                text="For every optional numeric field the decoder's None class, computed over the full value range the call site supplies, "
                     "must be exactly {sentinel} and every other raw value must be Some; a sentinel at the wrong resolution shows as an empty class."),
    "C12": dict(cat="translation_validation", ref="5/C12",
                tech="value-set partition of enumeration decoders' MIR over all 2^w codes vs. tables; symbolic composition for the reverse map",
                text="Complete code->variant tables of all enumeration decoders are recovered from their MIR (every code of every width, 256 for "
                     "ship type) and compared with tables keyed by public variant names; u8::from(ShipType) is composed with ShipType::parse."),
    "C13": dict(cat="translation_validation", ref="5/C13",
                tech="text provenance terms (bit groups, trim chain) + character-table LeafMap vs. 6-bit ASCII table",
                text="Every text field must be trim_end(trim_end_matches('@', trim_start(utf8(groups)))) over consecutive 6-bit groups mapped by a "
                     "decoder whose table over 0..63 is the 6-bit ASCII table and that cannot fail. str::trim* semantics are trusted."),
    "C14": dict(cat="translation_validation", ref="5/C14 + Appendix D",
                tech="length partition (intervals of payload bytes) of messages::parse vs. length oracle",
                text="Outcomes of messages::parse as a function of the payload length (interval partition, last interval unbounded) are compared "
                     "with the length oracle: Err below the mandatory size, exact signatures at every legal length (exact and armored), "
                     "element-count formulas and provenance inside [0,8N) at every length."),
    "C15": dict(cat="proof", ref="5/C15",
                tech="provenance of the copied slice (Rest(payload, hdr)) + byte-alignment of the bit cursor from the read trace",
                text="In every Ok partition of types 6/8/17 the data field is the whole payload remainder from the ITU header size and the reads "
                     "before the copy tile [0, 8*hdr) exactly (cursor byte aligned); no-alloc adds only Err beyond 119 bytes."),
    "C16": dict(cat="translation_validation", ref="5/C16",
                tech="provenance terms of the radio_status sub-structure per (type, selector, time-out) partition vs. ITU comm-state tables",
                text="For types 1,2,3,4,9,11,18 the scheme, the 19-bit state position, SOTDMA/ITDMA field layout and the time-out -> sub-message "
                     "map are compared with ITU-R M.1371-5 for all 8 time-out values and both selector values. Known finding K1 (type 9)."),
    "C02": dict(cat="proof", ref="5/C02",
                tech="must-pass-through rule on the extracted paths of AisParser::parse + LeafMap of the checksum function + operand provenance",
                text="On all extracted paths of AisParser::parse a successful checksum comparison precedes every store through self and every "
                     "Ok; the checksum function's table over a symbolic slice/byte is Ok iff byte == xor-fold of the whole slice; its operands are "
                     "the line between the start delimiter and the first '*' and the <=0xFF hex value after the terminating '*'."),
    "C05": dict(cat="model_checking", ref="5/C05",
                tech="extraction of the transition relation of AisParser::parse from MIR + exhaustive comparison of its guards/effects with a reference machine",
                text="The transition relation (guards over k, n, s, ids; effects on sid/s/data; delivered payload; decode calls) is extracted from "
                     "MIR with a symbolic parser state and compared with the reference reassembly machine on the whole guard domain "
                     "(boundary classes quick, all of u8^3 x 6 id relations x decode x decode outcomes thorough). Holds for every history "
                     "because the comparison is per transition from an arbitrary state."),
    "C06": dict(cat="model_checking", ref="5/C06",
                tech="same extracted relation vs. reference machine + explicit-state exploration of the extracted relation to a fixed point",
                text="Equivalence with the reference machine on the whole guard domain, plus exploration of the extracted relation over all "
                     "sequences of sentences (n<=4, ids {none,0,1}) to a fixed point of the abstract state space, checking that k>=2 is accepted "
                     "only as direct continuation of an open group and every delivered payload is fragments 1..k of one group."),
    "C07": dict(cat="translation_validation", ref="5/C07",
                tech="field provenance on accepting paths vs. grammar roles; byte-string tables from MIR; decode-flag non-interference on cells",
                text="Every AisSentence field's provenance term is compared with the grammar element the statement assigns to it; the talker "
                     "and report-type tables are recovered from the From<&[u8]> MIR; decode on/off cells must differ only in the message."),
    "C08": dict(cat="translation_validation", ref="5/C08 + Appendix C",
                tech="regular language of the applied nom byte parsers (from the interpreter's event trace) -> DFA, equivalence with the reference DFA",
                text="The union of the languages of all paths that pass the sentence grammar, with numeric side conditions and length bounds, is "
                     "determinised and compared by product construction with the DFA of the reference grammar of C08; a disagreement is "
                     "reported with a shortest distinguishing line. Exact for all byte strings (regular languages)."),
    "C17": dict(cat="proof", ref="5/C17",
                tech="frame rule on extracted paths (no store through self, post-state == pre-state) + item/type scan for shared state",
                text="Every path rejected for form/checksum/sequencing and every unfragmented-sentence path has no store through self and an "
                     "unchanged state term; no statics, no shared/borrowed fields in AisParser, no unsafe reachable from parse()."),
    "C19": dict(cat="translation_validation", ref="5/C19",
                tech="provenance term of AisSentence.message_type evaluated over all 256 first-byte values vs. the armoring alphabet",
                text="The extracted term for sentence.message_type is compared with the 6-bit value of the first payload character for all "
                     "byte values. Known finding K2 (the code takes the top six bits of the armored byte)."),
    "C01": dict(cat="proof", ref="5/C01",
                tech="panic-obligation discharge by abstract interpretation of all reachable local MIR (IntSet/Lin/BitVec domains, loop rule, congruence partition) x3 configurations",
                text="Every MIR Assert, panic-family call, unwrap/expect, overflow-inheriting operator and documented panic condition of nom/heapless "
                     "reachable from AisParser::parse, messages::unarmor and messages::parse is evaluated in every abstract partition that reaches it "
                     "(symbolic parser state, line, payload length, fill 0..5); leaf decoders over the join of their call-site ranges; loops only of the "
                     "accepted bounded shapes; no abort/exit. All obligations must be discharged."),
    "C03": dict(cat="translation_validation", ref="5/C03",
                tech="loop summarisation (counted-slice rule) + congruence partition mod 4 + bit-level OR/AND write descriptors vs. armoring definition",
                text="unarmor's MIR is summarised for a symbolic input length and fill: alphabet partition of the loop body, output length per residue "
                     "class, per-iteration OR-writes (which value bit lands on which stream bit) and final AND-masks are compared with the definition "
                     "of 6-bit unarmoring for all 4x4 residue classes and all 6 fill values."),
    "C18": dict(cat="translation_validation", ref="5/C18",
                tech="cross-configuration comparison of all extracted models (layout partition, reassembly cells, unarmor outcomes, leaf tables)",
                text="The models extracted from the std, alloc and no-alloc MIR are compared region by region: identical for std/alloc; for no-alloc "
                     "only Err outcomes caused by a capacity transformer beyond the documented capacities may differ, and a capacity failure must "
                     "always surface as Err. The local many_m_n/count copies are interpreted, not trusted."),
    "C20": dict(cat="proof", ref="5/C20",
                tech="abstract interpretation of the binary's MIR with a generic line item: panic obligations by receiver provenance, print/eprint reachability per parser outcome, line-source shape",
                text="main is interpreted with stdin as an opaque environment and one generic line: panic-capable calls may fail only on an I/O "
                     "error item; Complete -> exactly one stdout record, Err -> exactly one stderr record, Incomplete -> none; lines come from "
                     "stdin.split(b'\\n') with no dropping adaptor, drained by for_each; every path returns normally."),
}

NA = {}

def main():
    ids = [json.loads(l)["id"] for l in open("/verif/properties.jsonl")]
    checks = []
    for pid in ids:
        if pid in CLAIMED:
            c = CLAIMED[pid]
            checks.append({
                "property_id": pid,
                "quick_cmd": "bin/check %s quick" % pid,
                "thorough_cmd": "bin/check %s thorough" % pid,
                "evidence_file": "/verif/evidence/%s.json" % pid,
                "replay_cmd_template": "cat {path}",
                "engine": "aislint",
                "level_claimed": {"category": c["cat"], "text": c["text"], "design_ref": c["ref"]},
                "level_note": c.get("note", TB),
                "technique": c["tech"],
            })
    na = [{"property_id": pid, "reason": NA.get(pid, "rule module not built yet (build round in progress); see DESIGN.md section 5")}
          for pid in ids if pid not in CLAIMED]
    m = {
        "version": 1,
        "setup_cmd": "cd /verif/driver && CARGO_NET_OFFLINE=true cargo build --release --offline",
        "hooks": {"guard": "squidpickles_ais_verif (unused)",
                  "enable": "none: the analyser reads the compiler's MIR of the unmodified source (no hooks compiled into /repo)",
                  "baseline_off_cmd": "cd /repo && cargo test --workspace --no-fail-fast --offline",
                  "source_commits": [], "add_only": True},
        "engines": [
            {"name": "aisfacts", "path": "driver/", "serves_properties": [c["property_id"] for c in checks],
             "kind_free_text": "rustc_private driver: dumps resolved, type-checked MIR of /repo per feature configuration as JSON"},
            {"name": "aislint", "path": "analysis/aislint/", "serves_properties": [c["property_id"] for c in checks],
             "kind_free_text": "abstract interpreter over the dumped MIR + extractors + rule modules comparing extracted models with reference tables"},
        ],
        "checks": checks,
        "notes": "Static analysis only: no check executes ais on an input. Known findings: /verif/known_findings.txt.",
        "not_applicable": na,
    }
    json.dump(m, open("/verif/MANIFEST.json", "w"), indent=1)

if __name__ == "__main__":
    main()
