#!/bin/bash
# neutral_eval.sh <name>: applies neutral/<name>/patch.diff (a behaviour-preserving refactoring written by an
# independent sub-agent) to a scratch copy of /repo HEAD, re-checks that the 59 tests pass in the three
# configurations, and runs every check; any check that fires is a false alarm to be analysed.
set -u
NAME=$1
OUT=/verif/neutral/$NAME
# several matrix runners may work on the same list: each refactoring is claimed by one of them
[ -z "${NEUTRAL_CLAIMS:-}" ] && [ "${SKIP_TESTS:-0}" = 1 ] && [ -d /verif/.work/final2/claims ] && NEUTRAL_CLAIMS=/verif/.work/final2/claims
if [ -n "${NEUTRAL_CLAIMS:-}" ]; then mkdir "$NEUTRAL_CLAIMS/claim_$NAME" 2>/dev/null || { echo "claimed elsewhere"; exit 0; }; fi
TMP=$(mktemp -d /tmp/neutraleval.XXXXXX)
trap 'rm -rf "$TMP"' EXIT
(cd /repo && git archive HEAD | tar -x -C "$TMP" && cp Cargo.lock "$TMP/Cargo.lock")
cd "$TMP"; git init -q . >/dev/null 2>&1
if ! git apply "$OUT/patch.diff"; then echo "PATCH DOES NOT APPLY"; exit 1; fi
export CARGO_TARGET_DIR=$TMP/target CARGO_NET_OFFLINE=true
if [ "${SKIP_TESTS:-0}" = 1 ] && [ -f "$OUT/meta.json" ]; then
  # re-evaluation of an already confirmed refactoring: keep the recorded test results
  t1=$(python3 -c "import json;print(json.load(open('$OUT/meta.json'))['confirmed']['tests_std'])")
  t2=$(python3 -c "import json;print(json.load(open('$OUT/meta.json'))['confirmed']['tests_none'])")
  t3=$(python3 -c "import json;print(json.load(open('$OUT/meta.json'))['confirmed']['tests_alloc'])")
else
t1=$(timeout 900 cargo test --offline --lib 2>&1 | grep -E "^test result" | tail -1)
t2=$(timeout 900 cargo test --offline --lib --no-default-features 2>&1 | grep -E "^test result" | tail -1)
t3=$(timeout 900 cargo test --offline --lib --no-default-features --features alloc 2>&1 | grep -E "^test result" | tail -1)
fi
echo "tests: $t1 | $t2 | $t3"
rm -rf "$TMP/target"
export VERIF_DIR=/verif/.work/selftest_out/$NAME; mkdir -p $VERIF_DIR/evidence; cp /verif/known_findings.txt $VERIF_DIR/known_findings.txt
FIRED=""
for c in C01 C02 C03 C04 C05 C06 C07 C08 C09 C10 C11 C12 C13 C14 C15 C16 C17 C18 C19 C20; do
  r=$(AIS_REPO=$TMP timeout 900 /verif/bin/check $c quick 2>&1)
  if echo "$r" | grep -q "^VIOLATION property=$c"; then k=$(echo "$r" | grep -m1 "key=" | sed 's/^ *key=//' | cut -c1-200); FIRED="$FIRED $c"; echo "  $c FALSE-ALARM? $k"; fi
  if echo "$r" | grep -q "facts-unavailable\|internal-error"; then echo "  $c BROKEN (facts unavailable / analyser error)"; fi
done
echo "fired:$FIRED"
python3 - "$OUT" "$t1" "$t2" "$t3" "$FIRED" <<'PY'
import json,sys
out,t1,t2,t3,fired=sys.argv[1:6]
m=json.load(open(out+'/agent_meta.json'))
m["confirmed"]={"tests_std":t1,"tests_none":t2,"tests_alloc":t3}
m["checks_fired"]=fired.split()
json.dump(m,open(out+'/meta.json','w'),indent=1)
PY
exit 0
