#!/bin/bash
# seed_eval.sh <seed-dir containing out/patch.diff out/seed_demo.rs out/meta.json> <name>
# Confirms a seeded defect independently (applies the patch to a scratch copy of /repo HEAD, builds the
# three configurations, runs the 59 tests, runs the demo with and without the patch) and then runs
# every check against it.  Never touches /repo.
set -u
SRC=$1; NAME=$2
OUT=/verif/seeded/$NAME
TMP=$(mktemp -d /tmp/seedeval.XXXXXX)
trap 'rm -rf "$TMP"' EXIT
mkdir -p "$OUT"
if [ -d "$SRC/out" ]; then cp "$SRC/out/patch.diff" "$OUT/patch.diff"; cp "$SRC/out/seed_demo.rs" "$OUT/seed_demo.rs"; cp "$SRC/out/meta.json" "$OUT/agent_meta.json"; fi
(cd /repo && git archive HEAD | tar -x -C "$TMP" && cp Cargo.lock "$TMP/Cargo.lock")
cd "$TMP"; git init -q . >/dev/null 2>&1; git add -A >/dev/null 2>&1; git -c user.email=x -c user.name=x commit -qm base >/dev/null 2>&1
export CARGO_TARGET_DIR=$TMP/target CARGO_NET_OFFLINE=true
mkdir -p tests; cp "$OUT/seed_demo.rs" tests/seed_demo.rs
FLAGS=$(python3 -c "import json,re;m=json.load(open('$OUT/agent_meta.json'));c=m.get('demo_cmd','');print(' '.join(re.findall(r'--release|--no-default-features|--features \S+',c)))")
echo "demo flags: [$FLAGS]"
demo_base=$(timeout 900 cargo test --offline $FLAGS --test seed_demo 2>&1 | grep -E "^test result" | tail -1)
if ! git apply "$OUT/patch.diff"; then echo "PATCH DOES NOT APPLY"; echo '{"status":"patch does not apply"}' > "$OUT/eval.json"; exit 1; fi
b1=$(timeout 900 cargo build --offline 2>&1 | tail -1)
b2=$(timeout 900 cargo build --offline --no-default-features 2>&1 | tail -1)
b3=$(timeout 900 cargo build --offline --no-default-features --features alloc 2>&1 | tail -1)
suite=$(timeout 900 cargo test --offline --lib 2>&1 | grep -E "^test result" | tail -1)
demo_mut=$(timeout 900 cargo test --offline $FLAGS --test seed_demo 2>&1 | grep -E "^test result" | tail -1)
echo "build: $b1 | $b2 | $b3"; echo "suite: $suite"; echo "demo base: $demo_base"; echo "demo mutated: $demo_mut"
rm -rf tests/seed_demo.rs
FIRED=""; SILENT=""
mkdir -p /verif/.work/selftest_out/evidence; cp /verif/known_findings.txt /verif/.work/selftest_out/known_findings.txt
export VERIF_DIR=/verif/.work/selftest_out/$NAME; mkdir -p $VERIF_DIR/evidence; cp /verif/known_findings.txt $VERIF_DIR/known_findings.txt
for c in ${CHECKS:-C01 C02 C03 C04 C05 C06 C07 C08 C09 C10 C11 C12 C13 C14 C15 C16 C17 C18 C19 C20}; do
  r=$(AIS_REPO=$TMP timeout 900 /verif/bin/check $c ${TIER:-quick} 2>&1)
  if echo "$r" | grep -q "^VIOLATION property=$c"; then k=$(echo "$r" | grep -m1 "key=" | sed 's/^ *key=//' | cut -c1-160); FIRED="$FIRED $c"; echo "  $c FIRED $k"; else SILENT="$SILENT $c"; fi
  if echo "$r" | grep -q "facts-unavailable\|internal-error"; then echo "  $c BROKEN (facts unavailable / analyser error)"; fi
done
echo "fired:$FIRED"
python3 - "$OUT" "$b1" "$b2" "$b3" "$suite" "$demo_base" "$demo_mut" "$FIRED" <<'PY'
import json,sys
out,b1,b2,b3,suite,db,dm,fired=sys.argv[1:9]
m=json.load(open(out+'/agent_meta.json'))
json.dump({"property":m.get("property"),"summary":m.get("summary"),"needs":m.get("needs"),"demo_cmd":m.get("demo_cmd"),
 "confirmed":{"build_default":b1,"build_none":b2,"build_alloc":b3,"existing_suite":suite,"demo_on_original":db,"demo_with_patch":dm},
 "checks_fired":fired.split(),"what_i_ran":"tools/seed_eval.sh (scratch copy of /repo HEAD; patch applied with git apply; all 20 bin/check quick with AIS_REPO=<copy>)"},
 open(out+'/meta.json','w'),indent=1)
PY
git -C /verif/.work/selftest_out rev-parse >/dev/null 2>&1 || true
# restore evidence written by the runs above (they evaluated a mutated tree)
exit 0
