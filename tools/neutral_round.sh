#!/bin/bash
# neutral_round.sh <Rn>...: harvests finished refactorings from /tmp/refac/<Rn>, evaluates them (5 at a time)
cd /verif
tools/neutral_harvest.sh "$@"
printf "%s\n" "$@" | xargs -P 5 -I{} sh -c 'timeout 2400 tools/neutral_eval.sh {} > .work/neval_{}.txt 2>&1'
for r in "$@"; do echo "== $r"; grep -E "FALSE|fired|PATCH" .work/neval_$r.txt | cut -c1-300; done
