#!/bin/bash
# usage: tools/seed_try.sh <seed name> <check ids...>   - run some checks against a scratch copy with the seed applied
n=$1; shift
TMP=$(mktemp -d /tmp/seedtry.XXXXXX)
trap 'rm -rf $TMP' EXIT
mkdir -p $TMP/repo
(cd /repo && git archive HEAD) | tar -x -C $TMP/repo
cp /repo/Cargo.lock $TMP/repo/
(cd $TMP/repo && git init -q . && git apply /verif/seeded/$n/patch.diff) || { echo "patch failed"; exit 2; }
for c in "$@"; do
  AIS_REPO=$TMP/repo VERIF_DIR=/verif/.work/selftest_out timeout 600 /verif/bin/check $c quick 2>&1 | grep -E "VIOLATION|quick:" | awk '/VIOLATION/{n++; if(n<=2)print; next}{print}' | cut -c1-300
done
