#!/usr/bin/env python3
"""prints the markdown table of DESIGN.md section 11.6 from seeded/*/meta.json (checks_fired is
written by tools/seed_eval.sh; the one-line descriptions are hand-written here)"""
import json, os

DESC = {
    "C01-a": "reset moved after decode + `k != s+1` (overflow after a 255-fragment group whose decode fails)",
    "C01-b": "sentence grammar lets fill counts 6 and 7 through to `unarmor` (`final_idx - 1` underflows)",
    "C01-c": "no-alloc `many_m_n` loops `0..=MAX`: fifth element `push_unchecked` into a 4-slot vector",
    "C02-a": "`verify(hex <= 0xff)` replaced by a truncating cast",
    "C02-b": "checksum range captured with `take_while_m_n(0, 384, != '*')`: only the first 384 body bytes are XORed",
    "C02-c": "checksum range captured before the delimiter; `check_checksum` strips only a leading `!` (`$` lines fold the delimiter in)",
    "C03-a": "second mask shift `fill % bits` instead of `fill - bits` (n%4==3, fill 4/5)",
    "C03-b": "alphabet range 48..=88: 'X' decodes as 40",
    "C03-c": "new guard `fill_bits >= 5` rejects the legal fill count 5",
    "C04-a": "ITDMA slot increment decoded as signed",
    "C04-b": "type 16 second station only when `remaining_bits > 52`",
    "C04-c": "type 6 retransmit flag and spare bit swapped",
    "C05-a": "counter reset on every Complete, also unfragmented",
    "C05-b": "explicit 384-byte limit on the reassembled payload in every configuration",
    "C05-c": "`verify(message_type, <= 27)` on every sentence: continuation fragments starting with 'p'..'w' rejected",
    "C06-a": "counter reset skipped when decoding fails",
    "C06-b": "sequence-id check only when the incoming fragment carries an id",
    "C06-c": "no-alloc: buffer cleared on a capacity error, group left open (later fragment delivered alone)",
    "C07-a": "buffer not cleared when a first fragment arrives",
    "C07-b": "channel accepted only if ASCII-alphabetic (`1`/`2` reported as None)",
    "C07-c": "`unarmor(..)?` hoisted out of `if decode`: payload errors raised with decoding off",
    "C08-a": "`parse_ais_sentence(raw)` remainder discarded (junk before `*` accepted)",
    "C08-b": "checksum field > 0xFF accepted (narrowed with `as u8`)",
    "C08-c": "empty payload accepted on continuation fragments (message_type fallback 0)",
    "C09-a": "type mask `0x7c` (types >= 32 alias)",
    "C09-b": "dispatcher `0..=3` + `parse_radio` fallback: type 0 decodes as a position report",
    "C09-c": "scratch buffer reused across sentences (`unarmor_into`), cleared only after a successful decode",
    "C10-a": "sign test `num > half` (most negative value)",
    "C10-b": "type 27 course via `parse_cog(data * 10)`: raw 360 collides with the 3600 sentinel",
    "C10-c": "shared `parse_tenths(data, na)` uses `>=`: courses 3601..4095 absent",
    "C11-a": "sentinel compared after the float division",
    "C11-b": "minute/second 60..=63 all absent",
    "C11-c": "type 15 slot offset skipped when it occupies exactly the last 12 bits",
    "C12-a": "ship types 58/59 transposed in both directions",
    "C12-b": "type 9 assigned-mode flag read from the first spare bit",
    "C12-c": "type 5 DTE read together with the spare bit, `From<u8> for Dte` made total",
    "C13-a": "one `trim_end_matches({'@',' '})`",
    "C13-b": "type 14 text clamped to 156 characters",
    "C13-c": "`sixbit_to_ascii` split at 31 instead of 32 ('_' becomes 0x1F)",
    "C14-a": "type 5 destination width `min(120, rem - 2)`",
    "C14-b": "type 15 slot offset only when `remaining_bits > 12` (second request fabricated)",
    "C14-c": "no-alloc `many_m_n` returns Ok on empty input (header-only types 7/13/20 accepted)",
    "C15-a": "DGNSS data cut to the announced word count",
    "C15-b": "type 8 spare bits read into the DAC",
    "C15-c": "type 6 data capped at 113 bytes (constant + bounded copy)",
    "C16-a": "ITDMA slot increment decoded as signed",
    "C16-b": "SOTDMA sub-message read as 12 bits",
    "C16-c": "type 18 state chosen by the CS-unit flag instead of the selector bit",
    "C17-a": "reset condition `fragment_number <= 1`",
    "C17-b": "`fragment_number = 0` after every Complete, also unfragmented",
    "C17-c": "`is_fragment` true for `1,k` with k != 1 (joins an open group)",
    "C18-a": "counter advanced before the (fallible) append",
    "C18-b": "no-alloc text trimmed in a different order",
    "C18-c": "no-alloc `many_m_n` counter 1-based (minimum never enforced)",
    "C19-a": "cached group type overrides the sentence type",
    "C19-b": "one-character payloads report type 0 (`len() > 1`)",
    "C19-c": "type reported as 0 for unknown talkers / formatters",
    "C20-a": "`parser = AisParser::new()` after a rejected line",
    "C20-b": "fill counts 6/7 reach `unarmor` (tool panics)",
    "C20-c": "type 5 ship type via `ShipType::from(raw)` (unwrap panics for 100..=255)",
    "C01-d": "text cut at the first '@' with an index taken from the untrimmed string (slice panics after leading blanks)",
    "C04-d": "type 24 part B serial number masked to 19 bits",
    "C10-d": "type 19 speed read as 9 bits (reserved field widened to 9)",
    "C11-d": "year sentinel tested on the low byte (`year as u8 == 0`): years 256, 2048, ... absent",
    "C12-d": "aid type 18 mapped to `SafeWater` (collides with 29)",
    "C13-d": "type 24 model/serial taken as `long_vendor_id.get(3..)` of the already trimmed 7-character field",
    "C14-d": "`parse_6bit_ascii` clamps the width to the bits present: truncated type 24 part A accepted",
    "C16-d": "SOTDMA sub-message table: time-outs 6 and 7 transposed",
    "C18-d": "384-byte reassembly limit under `cfg(not(feature = \"std\"))`: also applies to alloc-only builds",
    "C20-d": "tool echoes an accepted line with `from_utf8(line).unwrap()` (bytes after the checksum / in a tag block)",
}

root = os.path.join(os.path.dirname(__file__), "..", "seeded")
print("| seed | change | checks that fire (target first) |")
print("|---|---|---|")
for n in sorted(os.listdir(root)):
    m = json.load(open(os.path.join(root, n, "meta.json")))
    fired = m.get("checks_fired", [])
    tgt = n.split("-")[0]
    order = ([tgt] if tgt in fired else ["**%s missed**" % tgt]) + [c for c in fired if c != tgt]
    print("| %s | %s | %s |" % (n, DESC.get(n, m.get("summary", "")[:100]), ", ".join(order)))
