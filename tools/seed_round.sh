#!/bin/bash
# seed_round.sh <name>...: evaluates finished seeds from their scratch worktrees /tmp/seed/<name> (5 at a
# time), removes the worktrees and prints which checks fired
cd /verif
printf "%s\n" "$@" | xargs -P 5 -I{} sh -c 'timeout 3000 tools/seed_eval.sh /tmp/seed/{} {} > .work/seval_{}.txt 2>&1'
for n in "$@"; do
  git -C /repo worktree remove --force /tmp/seed/$n 2>/dev/null
  echo "== $n"; grep -E "demo base|demo mutated|FIRED|fired:|DOES NOT" .work/seval_$n.txt | cut -c1-220
done
