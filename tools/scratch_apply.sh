#!/bin/bash
# usage: tools/scratch_apply.sh <seed name> <dir>  -> scratch copy of /repo HEAD with the seed applied in <dir> (caller removes it)
n=$1; D=$2
rm -rf "$D"; mkdir -p "$D"
(cd /repo && git archive HEAD) | tar -x -C "$D"
cp /repo/Cargo.lock "$D/"
(cd "$D" && git init -q . && git apply /verif/seeded/$n/patch.diff) || { echo "patch failed" >&2; exit 2; }
echo "$D"
