#!/bin/bash
# neutral_harvest.sh <Rn>...: copies a finished refactoring out of its scratch worktree /tmp/refac/<Rn>
# into neutral/<Rn>/ and removes the worktree
for r in "$@"; do
  src=/tmp/refac/$r
  [ -f $src/out/patch.diff ] || { echo "$r: no patch"; continue; }
  mkdir -p /verif/neutral/$r
  (cd $src && git diff -- src) > /verif/neutral/$r/patch.diff
  cp $src/out/meta.json /verif/neutral/$r/agent_meta.json
  git -C /repo worktree remove --force $src && echo "$r harvested"
done
